#!/usr/bin/env python3
"""Regenerate MANIFEST.json from driver/manifest_data.py (keeps the file valid at all times)."""
import json
import os
import sys

ROOT = os.path.dirname(os.path.dirname(os.path.abspath(__file__)))
sys.path.insert(0, os.path.join(ROOT, "driver"))
from manifest_data import CHECKS, NOT_APPLICABLE, HOOK_COMMITS, NOTES  # noqa: E402

m = {
    "version": 1,
    "setup_cmd": "./check setup",
    "hooks": {
        "guard": "cargo feature `verif` of the sodg crate",
        "enable": "the harness depends on sodg = { path = \"/repo\", features = [\"verif\"] }; every ./check rebuilds it from /repo's working tree",
        "baseline_off_cmd": "cd /repo && cargo test --workspace --no-fail-fast --offline",
        "source_commits": HOOK_COMMITS,
        "add_only": True,
    },
    "engines": [
        {"name": "sodg-monitor", "path": "harness/", "serves_properties": sorted(CHECKS),
         "kind_free_text": "Rust harness: recorder at the API boundary, executable reference model, trace/twin/parse-back monitors, seeded model-guided workload generators; run natively (debug assertions on), under ASan, Miri and valgrind"},
        {"name": "check", "path": "check", "serves_properties": sorted(CHECKS),
         "kind_free_text": "Python driver: content-hash rebuild, sharding over 16 cores, aggregation, three-valued verdict, evidence"},
    ],
    "checks": [],
    "notes": NOTES,
    "not_applicable": NOT_APPLICABLE,
}
for pid in sorted(CHECKS):
    c = CHECKS[pid]
    m["checks"].append({
        "property_id": pid,
        "quick_cmd": f"./check {pid} quick",
        "thorough_cmd": f"./check {pid} thorough",
        "evidence_file": f"evidence/{pid}.json",
        "replay_cmd_template": "./check replay {path}",
        "engine": "sodg-monitor",
        "level_claimed": {"category": c.get("category", "exploration"), "text": c["text"], "design_ref": c["design_ref"]},
        "level_note": c["note"],
        "technique": c["technique"],
    })
with open(os.path.join(ROOT, "MANIFEST.json"), "w") as f:
    json.dump(m, f, indent=1, ensure_ascii=False)
print("MANIFEST.json written:", len(m["checks"]), "checks,", len(NOT_APPLICABLE), "not applicable")
