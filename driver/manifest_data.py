"""Data for MANIFEST.json."""

HOOK_COMMITS = ["52285d2"]
FIX_COMMITS = ["8798a69", "9de7a26", "f89963f", "7213fd6", "49d8190", "d095b21"]

NOTES = ("Runtime monitoring only: every check runs the real sodg code built from /repo's working tree under generated "
         "workloads with an oracle observing every call. Exit 0 held / 1 VIOLATION / 2 INCONCLUSIVE (machinery problem, "
         "never a verdict). Known findings: known_findings.json. Design: DESIGN.md. The thorough tier of every check adds two stages: `reach` "
         "(LLVM source coverage of /repo/src under the check's own workload, written into the evidence; inconclusive if none of the anchored "
         "code was executed) and, except for C07, `rel` (the same monitors over other histories in a release build of sodg). Odd-numbered "
         "shards run with a trace-level logger installed, so the code inside sodg's log statements is executed under the monitors too.")

TRUST = ("Trusted: the harness (recorder, generators), the reference model / trace rules written from the property text, "
         "rustc; coverage is what the evidence file reports for that run, nothing beyond it.")

CHECKS = {
    "C01": {
        "text": "Exploration: a complete small-scope sweep (all legal histories over 3-4 ids to depth 9 quick / 12 thorough) plus tens of thousands of "
                "generated legal histories (add/bind/put/data/kid/kids/next_id/clone/slice/merge/save+load, 10 workload profiles, N 1..16, cap 2..256); "
                "after every single call a model-free trace monitor applies the five refutation rules of the statement to the keys() diff. "
                "Right level because the property is a safety property over call histories: one bad call refutes it and is directly observable.",
        "design_ref": "§4 C01, §3.4-3.7",
        "note": TRUST + " The trace monitor derives read/unread and bind-connectivity only from the call log and real return values.",
        "technique": "online trace monitor (model-free) over recorded call histories + drain probe",
    },
    "C02": {
        "text": "Exploration: a complete small-scope sweep plus generated legal histories of primitive calls (add, bind, put, data, kid, kids, next_id; one history in three goes on with a clone / a reloaded image of the graph) "
                "compared call by call with an executable reference model of the group semantics (alive set equality), panics caught; every history "
                "ends with a drain probe (and slot-fill probe) so counter drift becomes observable; a second, independent Python oracle re-judges "
                "dumped event logs (stage offline).",
        "design_ref": "§4 C02, §3.5, §3.7",
        "note": TRUST + " The model recounts unread data instead of keeping counters, so it shares no mechanism with the code.",
        "technique": "differential monitoring against an executable reference model + drain/slot-fill probes",
    },
    "C03": {
        "text": "Exploration: after every call of label/data-heavy histories, kids()/kid() of every present vertex, the data marker and "
                "every data() result are compared with the last writes recorded by the model (read-your-writes oracle).",
        "design_ref": "§4 C03",
        "note": TRUST,
        "technique": "read-your-writes monitor against the reference model after every call",
    },
    "C04": {
        "text": "Exploration: every add() judged by before/after digests of the whole graph (present id) or blankness + a real read (absent id), also on clones and reloaded images the history is handed over to; "
                "twin execution of the same history without its redundant adds, compared after every call and through a drain.",
        "design_ref": "§4 C04",
        "note": TRUST + " Model-free: the oracle is the graph itself before the call / its twin.",
        "technique": "before/after digest monitor + twin-execution differential monitor",
    },
    "C05": {
        "text": "Exploration: trace monitor with the per-lineage set of returned ids over histories that interleave next_id with adds, "
                "collections, clones, merges and scripts.",
        "design_ref": "§4 C05",
        "note": TRUST,
        "technique": "online trace monitor (freshness / no-repeat set per lineage)",
    },
    "C06": {
        "text": "Exploration: long churn histories (up to thousands of create-put-read cycles, 0..13 long-lived groups, non-FIFO deaths, one history in three with checkpoints: it goes on with the reloaded image or a clone) "
                "against the reference model after every call, ending with drain and slot-fill probes that make leaked group slots observable.",
        "design_ref": "§4 C06, §3.7",
        "note": TRUST,
        "technique": "long-run differential monitoring against the reference model + slot-fill probe",
    },
    "C08": {
        "text": "Exploration: original and reloaded graph run as twins in lock-step under a random continuation and a final drain; digests of "
                "all queries compared at load time and after every call; hook snapshot equality (modulo allocator position) recorded; "
                "the reloaded graph's next_id() judged against 'restart from the lowest absent id'.",
        "design_ref": "§4 C08, §3.7",
        "note": TRUST + " Model-free oracle (the other copy); the model only supplies legal continuations.",
        "technique": "twin-execution differential monitor (original vs reloaded) with differential continuation",
    },
    "C09": {
        "category": "fault_enumeration",
        "text": "Fault enumeration: for each sampled image every prefix length 0..size-1 is loaded (exhaustive per image), and real partial "
                "writes of save() are injected through RLIMIT_FSIZE, on a fresh path and over an earlier complete image; load() must return Err every time.",
        "design_ref": "§4 C09",
        "note": TRUST + " Images are sampled (from generated histories); the cut points per image are enumerated completely.",
        "technique": "fault injection (truncation at every byte; kernel-enforced partial writes) with a result oracle",
    },
    "C10": {
        "text": "Exploration: original and clone as twins in lock-step (all return values incl. next_id and merge ids, digests, drain); "
                "frozen copies checked for independence in both directions.",
        "design_ref": "§4 C10, §3.7",
        "note": TRUST + " Model-free oracle (the other copy).",
        "technique": "twin-execution differential monitor (original vs clone) + independence check",
    },
    "C13": {
        "text": "Exploration: slices of generated cyclic graphs under seven predicate families compared with a closure the monitor computes "
                "from the source's own kids(); termination as a bound on predicate invocations + crash classification.",
        "design_ref": "§4 C13",
        "note": TRUST + " Predicates are pure tables keyed by (from,to,label), so the expected closure is well defined.",
        "technique": "result monitor with an independently computed reachability closure; logical-step termination bound",
    },
    "C18": {
        "text": "Exploration: XML parsed back with sxd-document and DOT with a line grammar, compared with keys()/kids()/recorded data; "
                "canonicity through twin builds of the same abstract graph compared byte for byte.",
        "design_ref": "§4 C18",
        "note": TRUST + " Data bytes come from the reference model (what was last put).",
        "technique": "parse-back monitor + twin-build canonicity check",
    },
    "C20": {
        "text": "Exploration: inspect() parsed by indentation and compared edge-for-edge with kids() of every reachable vertex, "
                "output-size bound for termination; Debug/Display/v_print parsed and compared with keys()/kids()/recorded data.",
        "design_ref": "§4 C20",
        "note": TRUST,
        "technique": "parse-back monitor; logical-step (output size) termination bound + crash classification",
    },
    "C15": {
        "text": "Exploration (complete sweep inside the stated bounds): every accessor/index/range of Hex in every representation compared "
                "with the same operation on the byte slice, including the panic/no-panic outcome; every constructor (from_vec, the enum variants, "
                "empty, from_slice, from_str_bytes, From<i64/i32/i16/i8/f64/f32/bool>) must hold exactly the bytes it was built from.",
        "design_ref": "§4 C15",
        "note": TRUST + " Oracle: Rust's slice operations.",
        "technique": "differential monitor against the byte slice (value and panic outcome)",
    },
    "C16": {
        "text": "Exploration (complete sweep of length pairs 0..=12 x representations): concat() against Vec concatenation. One known finding "
                "(inline left operand shorter than 8 bytes spilling to the heap) is matched by an exact instance predicate; any other mismatch is a violation.",
        "design_ref": "§4 C16, §3.11",
        "note": TRUST,
        "technique": "differential monitor against Vec concatenation with known-finding signature matching",
    },
    "C17": {
        "text": "Exploration (all strings up to 4 characters over a 12-character alphabet + sampled longer ones; canonical values): parse-print, "
                "print-parse, rejection and kid() lookup under parsed vs built labels.",
        "design_ref": "§4 C17, §5",
        "note": TRUST + " The demand per text follows the reading in DESIGN §5 (no demand on leading zeros / leading '+').",
        "technique": "round-trip monitor with the string itself as oracle",
    },
    "C11": {
        "text": "Exploration with a complete small-scope sweep (all ordered tree pairs up to 3x5 vertices, all data placements incl. zero-length and "
                "already-read data) plus random larger trees (GC history, tight capacities): facts about the call (Ok, nothing removed, right graph "
                "unchanged) and a twin on which the documented algorithm is carried out with public calls (kid / next_id+add+bind / put); the merged "
                "graph must equal that reference up to a renaming of the new vertices, now and after every read of a continuation.",
        "design_ref": "§4 C11",
        "note": TRUST + " 'As if by add/bind/put' is decided between two real graphs, so defects of add/bind/put/next_id themselves are not blamed on merge; "
                "which fresh id goes where is left free (comparison up to renaming along the right tree's paths).",
        "technique": "twin-execution differential monitor (merge vs. the same additions made by public calls) + facts about the call",
    },
    "C12": {
        "text": "Exploration: right graphs that fall apart in every generated way (extra vertices, detached sub-trees, re-pointed edges, graphs that went through slice()/clone()); Ok must imply that every present vertex is reachable, "
                "Err must name the missed vertices and list no vertex that was mapped; one case in four runs right after another, rightly rejected merge into the same left graph.",
        "design_ref": "§4 C12",
        "note": TRUST,
        "technique": "result monitor with independently computed reachability",
    },
    "C14": {
        "text": "Exploration: twin execution script vs. direct API calls from the same AST under random legal renderings, with differential "
                "continuation; single-fault corruptions must yield Err with exactly the preceding commands applied.",
        "design_ref": "§4 C14",
        "note": TRUST + " Malformedness is decided by construction of the corruption, not by the implementation.",
        "technique": "twin-execution differential monitor (script vs API) + fault injection into the script text",
    },
    "C19": {
        "text": "Exploration: the same history replayed in-process, in a second process and under other (N, capacity) configurations; complete "
                "observation traces compared by prefix hashes.",
        "design_ref": "§4 C19",
        "note": TRUST + " Model-free.",
        "technique": "trace-equality monitor across repeated executions, processes and configurations",
    },
    "C07": {
        "text": "Exploration under sanitizers: the same hostile workload (legal prefix, one limit overrun that must panic, tainted phase) is run "
                "natively with debug assertions, under AddressSanitizer (the instrument the property names), under Miri in two modes and (thorough) "
                "under valgrind memcheck; each instrument first has to report a canary. In-limits calls of the prefix (each followed by len() and is_empty()) must complete, the overrun must panic, "
                "and right after the caught overrun panic the read-only calls on every present vertex must still complete. Reports are classified into the four classes of the statement; "
                "other UB kinds make the run inconclusive, never a verdict.",
        "design_ref": "§4 C07, §3.2",
        "note": TRUST + " Trusted: ASan/Miri/valgrind. ASan cannot see overflows inside one heap block and Miri only sees its small workloads; "
                "the evidence lists calls per instrument.",
        "technique": "compiler sanitizer (ASan) + UB interpreter (Miri, two modes) + valgrind memcheck over a hostile workload, with canaries",
    },
}

_PENDING = "check under construction in this round; not claimed yet"
NOT_APPLICABLE = [
    {"property_id": p, "reason": _PENDING}
    for p in []
]
