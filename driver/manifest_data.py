"""Data for MANIFEST.json."""

HOOK_COMMITS = ["52285d2"]

NOTES = ("Runtime monitoring only: every check runs the real sodg code built from /repo's working tree under generated "
         "workloads with an oracle observing every call. Exit 0 held / 1 VIOLATION / 2 INCONCLUSIVE (machinery problem, "
         "never a verdict). Known findings: known_findings.json. Design: DESIGN.md.")

TRUST = ("Trusted: the harness (recorder, generators), the reference model / trace rules written from the property text, "
         "rustc; coverage is what the evidence file reports for that run, nothing beyond it.")

CHECKS = {
    "C01": {
        "text": "Exploration: tens of thousands of generated legal histories (all op kinds, 10 workload profiles, N 1..16, cap 2..256); "
                "after every single call a model-free trace monitor applies the five refutation rules of the statement to the keys() diff. "
                "Right level because the property is a safety property over call histories: one bad call refutes it and is directly observable.",
        "design_ref": "§4 C01, §3.4-3.7",
        "note": TRUST + " The trace monitor derives read/unread and bind-connectivity only from the call log and real return values.",
        "technique": "online trace monitor (model-free) over recorded call histories + drain probe",
    },
    "C02": {
        "text": "Exploration: generated legal histories compared call by call with an executable reference model of the group semantics "
                "(alive set equality), panics caught; every history ends with a drain probe so counter drift becomes observable.",
        "design_ref": "§4 C02, §3.5, §3.7",
        "note": TRUST + " The model recounts unread data instead of keeping counters, so it shares no mechanism with the code.",
        "technique": "differential monitoring against an executable reference model + drain/slot-fill probes",
    },
    "C03": {
        "text": "Exploration: after every call of label/data-heavy histories, kids()/kid() of every present vertex, the data marker and "
                "every data() result are compared with the last writes recorded by the model (read-your-writes oracle).",
        "design_ref": "§4 C03",
        "note": TRUST,
        "technique": "read-your-writes monitor against the reference model after every call",
    },
    "C04": {
        "text": "Exploration: every add() judged by before/after digests of the whole graph (present id) or blankness + a real read (absent id); "
                "twin execution of the same history without its redundant adds, compared after every call and through a drain.",
        "design_ref": "§4 C04",
        "note": TRUST + " Model-free: the oracle is the graph itself before the call / its twin.",
        "technique": "before/after digest monitor + twin-execution differential monitor",
    },
    "C05": {
        "text": "Exploration: trace monitor with the per-lineage set of returned ids over histories that interleave next_id with adds, "
                "collections, clones, merges and scripts.",
        "design_ref": "§4 C05",
        "note": TRUST,
        "technique": "online trace monitor (freshness / no-repeat set per lineage)",
    },
    "C06": {
        "text": "Exploration: long churn histories (up to thousands of create-put-read cycles, 0..13 long-lived groups, non-FIFO deaths) "
                "against the reference model after every call, ending with drain and slot-fill probes that make leaked group slots observable.",
        "design_ref": "§4 C06, §3.7",
        "note": TRUST,
        "technique": "long-run differential monitoring against the reference model + slot-fill probe",
    },
}

_PENDING = "check under construction in this round; not claimed yet"
NOT_APPLICABLE = [
    {"property_id": p, "reason": _PENDING}
    for p in ["C07", "C08", "C09", "C10", "C11", "C12", "C13", "C14", "C15", "C16", "C17", "C18", "C19", "C20"]
]
