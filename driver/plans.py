"""Per-property run plans: shards, cases per shard, soft budget, watchdog, evidence texts."""

ASSUME_COMMON = [
    "the harness binary is rebuilt from /repo's working tree with the cargo feature `verif` (content-hash freshness)",
    "histories are drawn only within the capacity limits and preconditions of the property's quantifier (legality from the reference model)",
    "a passing run means: held on the executions observed, nothing more",
]


def hist(rule, quick, thorough, floor=50, extra_assume=(), level="exploration"):
    qc, qb = quick
    tc, tb = thorough
    return {
        "common": {"level": level, "rule": rule, "assumptions": ASSUME_COMMON + list(extra_assume),
                   "floor": floor, "shards": 16},
        "quick": {"count": qc, "budget_s": qb, "watchdog_s": qb * 20 + 120},
        "thorough": {"count": tc, "budget_s": tb, "watchdog_s": tb * 10 + 300},
    }


PLANS = {
    "C01": hist(
        "random legal histories (10 profiles, N in 1..=16, cap 2..=256) checked after every call by a model-free trace "
        "monitor (present set, unread flags, union-find over binds); distinct = hash of (N, cap, op sequence); "
        "non-trivial = at least one collection AND at least one read that must not collect happened",
        (2500, 12), (40000, 150)),
    "C02": hist(
        "random legal histories compared with the executable reference model on keys() after every call, every history "
        "ends with the drain probe; non-trivial = >=2 groups formed, >=1 died, and a put-before-bind / overwrite of an "
        "unread datum / add on a present or collected id occurred",
        (2500, 12), (40000, 150)),
    "C03": hist(
        "label- and data-heavy legal histories; after every call kids()/kid() of every present vertex and every data() "
        "result are compared with the last writes; non-trivial = label overwrite, data overwrite, repeated read and a "
        "collection of another group all occurred",
        (2500, 12), (40000, 150)),
    "C04": hist(
        "re-add histories; every add() is judged by a before/after digest (present id) or blankness + a real read (absent id), "
        "and the whole history is run in lock-step against a twin without the redundant adds, through a drain; "
        "non-trivial = an add on a present grouped vertex AND an add on a collected id that had edges or data",
        (1200, 12), (20000, 150)),
    "C05": hist(
        "histories interleaving next_id with explicit adds, collections, clones, merges and scripts; trace monitor with "
        "the per-lineage returned-set; non-trivial = >=3 next_id() calls with an explicit add and a collection in between",
        (2500, 10), (40000, 120)),
    "C06": hist(
        "churn histories (create-put-read cycles over a rotating id set, 0..=13 long-lived groups, non-FIFO deaths) "
        "compared with the reference model after every call + drain + slot-fill probe; non-trivial = >=15 collections "
        "in the history (one full wrap of the 14 group slots)",
        (200, 15), (1500, 200), floor=30),
}
