"""Per-property run plans: shards, cases per shard, soft budget, watchdog, evidence texts."""

ASSUME_COMMON = [
    "the harness binary is rebuilt from /repo's working tree with the cargo feature `verif` (content-hash freshness)",
    "histories are drawn only within the capacity limits and preconditions of the property's quantifier (legality from the reference model)",
    "a passing run means: held on the executions observed, nothing more",
]


def hist(rule, quick, thorough, floor=50, extra_assume=(), level="exploration", mode=""):
    qc, qb = quick
    tc, tb = thorough
    return {
        "common": {"level": level, "rule": rule, "assumptions": ASSUME_COMMON + list(extra_assume),
                   "floor": floor, "shards": 16},
        "quick": {"count": qc, "budget_s": qb, "watchdog_s": qb * 20 + 120},
        "thorough": {"count": tc, "budget_s": tb, "watchdog_s": tb * 10 + 300},
    } if not mode else {
        "common": {"level": level, "rule": rule, "assumptions": ASSUME_COMMON + list(extra_assume),
                   "floor": floor, "shards": 16, "mode": mode},
        "quick": {"count": qc, "budget_s": qb, "watchdog_s": qb * 20 + 120},
        "thorough": {"count": tc, "budget_s": tb, "watchdog_s": tb * 10 + 300},
    }


PLANS = {
    "C01": hist(
        "small-scope sweep (all legal histories over 3-4 ids, depth 9/12) + random legal histories (10 profiles, N in 1..=16, cap 2..=256) checked after every call by a model-free trace "
        "monitor (present set, unread flags, union-find over binds); distinct = hash of (N, cap, op sequence); "
        "non-trivial = at least one collection AND at least one read that must not collect happened",
        (2500, 12), (40000, 150)),
    "C02": hist(
        "small-scope sweep + random legal histories of primitive calls compared with the executable reference model on keys() after every call, every history "
        "ends with the drain probe; non-trivial = >=2 groups formed, >=1 died, and a put-before-bind / overwrite of an "
        "unread datum / add on a present or collected id occurred",
        (2500, 12), (40000, 150)),
    "C03": hist(
        "label- and data-heavy legal histories; after every call kids()/kid() of every present vertex and every data() "
        "result are compared with the last writes; non-trivial = label overwrite, data overwrite, repeated read and a "
        "collection of another group all occurred",
        (2500, 12), (40000, 150)),
    "C04": hist(
        "re-add histories; every add() is judged by a before/after digest (present id) or blankness + a real read (absent id), "
        "and the whole history is run in lock-step against a twin without the redundant adds, through a drain; "
        "non-trivial = an add on a present grouped vertex AND an add on a collected id that had edges or data",
        (1200, 12), (20000, 150)),
    "C05": hist(
        "histories interleaving next_id with explicit adds, collections, clones, merges and scripts; trace monitor with "
        "the per-lineage returned-set; non-trivial = >=3 next_id() calls with an explicit add and a collection in between",
        (6000, 10), (80000, 120)),
    "C06": hist(
        "churn histories (create-put-read cycles over a rotating id set, 0..=13 long-lived groups, non-FIFO deaths) "
        "compared with the reference model after every call + drain + slot-fill probe; non-trivial = >=15 collections "
        "in the history (one full wrap of the 14 group slots)",
        (200, 15), (1500, 200), floor=30),
    "C15": hist(
        "byte strings of length 0..=16 (24 thorough) x 6 contents x up to 5 representations (from_vec, Hex::Vector, Hex::Bytes with "
        "0x00 / 0xFF / random padding); every accessor, every index in 0..=len+2 and usize::MAX(-1), all six range kinds over every "
        "(start,end) pair, equality across representations, from_str(print), i64/f64 conversions; oracle = the same operation on the "
        "byte slice incl. panic/no-panic; non-trivial = distinct (string, representation, accessor, index) tuples at or across a boundary "
        "(len in {0,7,8,9}, index in {len-1,len,len+1})",
        (1, 60), (1, 300), floor=1000),
    "C16": hist(
        "all pairs of lengths 0..=16 (24 thorough) x contents x all representations of both operands; oracle = Vec concatenation, "
        "operands unchanged; non-trivial = distinct pairs whose left operand or total length lies at the 8-byte boundary",
        (1, 60), (1, 300), floor=1000),
    "C17": hist(
        "all strings of length 0..=4 (5 thorough) over a 12-character alphabet (ASCII, digits, signs, alpha, 2- and 4-byte characters) "
        "plus sampled strings of 5..=10 characters; canonical label values Greek/Alpha/Str; oracle = the string itself (parse-print, "
        "print-parse, rejection, kid() lookup under parsed vs built label); non-trivial = distinct texts of boundary length "
        "(1,2,7,8,9 characters) or alpha-prefixed that the statement makes a demand on, and every canonical value",
        (1, 60), (1, 300), floor=1000),
    "C08": hist(
        "mixed histories with save+load at random points (often repeatedly); the copy not continued becomes a twin that receives "
        "every later call in lock-step (return values and keys/kids/kid/v_print digests compared after every call, lock-step drain at the "
        "end); full text digests + hook snapshot compared at load time; next_id() on the reloaded graph checked against 'restart from the "
        "lowest absent id'; non-trivial = image of a graph with a group holding unread heap-encoded data and an absent slot with history, "
        "followed by a continuation that collects something",
        (700, 14), (12000, 150), floor=30),
    "C09": hist(
        "images of graphs reached by mixed/cross/full histories (N in 1..=16, cap 2..=256); for every image EVERY prefix length "
        "0 <= k < size is written and loaded (direct truncation), plus ~30-60 real partial writes of save() per image produced by the kernel "
        "under a lowered RLIMIT_FSIZE; verdict per load: Err required, Ok or panic refutes; non-trivial = distinct images containing a "
        "heap-encoded datum, a vertex with >=2 edges and a live group",
        (16, 18), (220, 200), floor=8, level="fault_enumeration"),
    "C10": hist(
        "mixed histories with clone() at random points; the copy not continued becomes a twin in lock-step (every return value incl. "
        "next_id and merge-created ids, digests after every call, lock-step drain); frozen copies must not move while the other graph "
        "is mutated, and mutating a copy must not move the source; non-trivial = clone taken while a group holds unread heap data and the "
        "allocator is ahead of the lowest absent id, with a continuation that collects and allocates",
        (700, 14), (12000, 150), floor=30),
    "C13": hist(
        "cyclic / shared-target / many-label graphs reached by cross, full, labels and mixed histories; every ~6 calls and at the end "
        "slices from present start vertices under 7 predicates (accept-all, reject-all, 30/50/80 % tables, label-based, not-into-one-vertex); "
        "oracle = closure computed from the source's kids(); predicate-call bound as termination check; non-trivial = slice over a cyclic "
        "reachable part with a rejected edge whose target is kept through another edge",
        (4500, 12), (50000, 150), mode="sink"),
    "C18": hist(
        "graphs reached by mixed/cross/re-add histories after collections; to_xml() parsed with sxd-document and to_dot() with a line "
        "grammar, compared with keys()/kids()/model data every ~8 calls; canonicity by a twin build of the same abstract graph (other "
        "insertion orders, other N and capacity, detours through collected ids, overwritten data) compared byte for byte; non-trivial = "
        "graph with a collected id, a never-added id and a vertex with >=2 edges and data",
        (4500, 12), (50000, 150)),
    "C20": hist(
        "graphs reached by mixed/cross/full histories; inspect() from present start vertices parsed back by indentation and compared "
        "edge-for-edge with kids() of every reachable vertex (exactly once), line-count bound; Debug/Display entries and v_print() parsed "
        "and compared with keys()/kids()/model data; non-trivial = start vertex from which a cycle and a vertex of in-degree >= 2 are reachable",
        (4500, 12), (50000, 150), mode="sink"),
    "C11": hist(
        "small-scope sweep: every ordered left tree <= 3 vertices x every left vertex x every ordered right tree <= 4 (5 thorough) vertices x "
        "all placements of {no, inline, heap, zero-length, already-read} data; plus random trees up to 9 (12) vertices on arbitrary ids with a GC "
        "history in the left graph or in a graph the result almost fills; after the merge: Ok, nothing removed, right graph unchanged, and equality "
        "(up to renaming of new ids) with a twin on which the same additions were made by kid/next_id/add/bind/put calls, re-checked after every "
        "read of a random read/drain continuation; non-trivial = partial overlap, data in the right tree, >=1 new vertex and a group dying in the "
        "continuation",
        (15000, 12), (250000, 150), floor=30),
    "C12": hist(
        "right graph = random tree + 0..6 extras (isolated vertices with/without data, detached sub-trees, right below the root), random left "
        "tree and left vertex; oracle = reachability in the right graph computed from its build ops; Ok must imply completeness, Err must "
        "name (as nu<id>) every missed vertex, control cases without extras must return Ok; non-trivial = a detached sub-tree of >=2 vertices "
        "or right below the root",
        (80000, 8), (1200000, 100)),
    "C14": hist(
        "ASTs of 1..40 ADD/BIND/PUT commands over literal ids and up to 6 variables on top of a random base history, rendered with random "
        "legal formatting (spaces, tabs, newlines, nu-prefixes, comments containing ; ) #, hex in mixed case with/without dashes and inner "
        "whitespace); twin = the same graph driven by direct calls; digests + snapshot compared, then a 20-call continuation and a drain on both; "
        "one third of the programs carry one of 12 single-fault corruptions: Err required, graph == preceding commands applied; non-trivial = "
        "a variable used in >=2 commands, a comment and a datum > 8 bytes",
        (12000, 10), (160000, 120), floor=30),
    "C19": hist(
        "mixed histories (merge and slice included) generated for (N0,cap0), replayed in the same process, in a second process (fresh "
        "RandomState, other ASLR) and under 4 (8 thorough) other configurations N>=N0, cap>=cap0; the prefix hashes of the full observation "
        "trace (every return value incl. kids() order and allocated ids, keys/kids/kid/v_print after every call, all printers every 16 calls) "
        "must agree; non-trivial = history with a merge creating >=2 vertices or a slice of >=3 vertices, replayed under >=3 other configurations",
        (650, 14), (8000, 150), floor=20),
    "C07": {
        "common": {
            "level": "exploration",
            "rule": "hostile histories: a legal random prefix with the model alongside (all API incl. clone/slice/merge/save+load/exports/scripts), "
                    "exactly one limit overrun with a known outcome (id >= capacity; (N+1)-th label; 17th group member: must panic), then a "
                    "tainted phase of wild ids, absent endpoints, self-binds, non-tree merges (reaching join()), next_id on full graphs, loads of "
                    "truncated / bit-flipped / foreign-N images, malformed scripts, out-of-range Hex accessors, continued use after interrupted calls; "
                    "every call under catch_unwind; run natively (debug assertions), under AddressSanitizer, Miri M1 (unmodified dependencies, "
                    "validation off), Miri M2 (full validity + Stacked Borrows, one-line microstack patch) and, thorough tier, valgrind memcheck; "
                    "each instrument must first report a canary; non-trivial = distinct (history, instrument) pairs with a caught overrun panic or a "
                    "tainted phase of >= 20 calls",
            "assumptions": ASSUME_COMMON + [
                "debug-assertion builds, as the property states (emap's bounds checks are debug-only)",
                "leaks are out of scope (emap never drops); capacities >= 1",
                "a sanitizer-clean run is not memory safety: only the paths these workloads reach were observed",
                "Miri M2 runs microstack with one changed line (uninit() -> zeroed() in Stack::new), see patches/microstack/PATCH-NOTE.md",
            ],
            "floor": 40, "shards": 16,
        },
        "quick": {"count": 250, "budget_s": 10, "watchdog_s": 400,
                  "stages": ["asan", "miri1", "miri2"],
                  "stage_plans": {
                      "asan": {"shards": 16, "count": 250, "budget_s": 12, "watchdog_s": 400},
                      "miri1": {"shards": 16, "count": 2, "budget_s": 40, "watchdog_s": 900},
                      "miri2": {"shards": 16, "count": 2, "budget_s": 40, "watchdog_s": 900},
                  }},
        "thorough": {"count": 4000, "budget_s": 120, "watchdog_s": 1500,
                     "stages": ["asan", "miri1", "miri2", "memcheck"],
                     "stage_plans": {
                         "asan": {"shards": 32, "count": 2500, "budget_s": 150, "watchdog_s": 2000},
                         "miri1": {"shards": 64, "count": 5, "budget_s": 150, "watchdog_s": 2400},
                         "miri2": {"shards": 64, "count": 4, "budget_s": 150, "watchdog_s": 2400},
                         "memcheck": {"shards": 16, "count": 300, "budget_s": 150, "watchdog_s": 2400},
                     }},
    },
}

# second oracle over dumped event logs (DESIGN §3.12): thorough tier of C01 and C02, quick tier of C02
_OFF = {"shards": 16, "count": 400, "budget_s": 20, "watchdog_s": 600}
for _p, _tiers in (("C01", ("thorough",)), ("C02", ("quick", "thorough"))):
    for _t in _tiers:
        PLANS[_p][_t]["stages"] = ["offline"]
        PLANS[_p][_t]["stage_plans"] = {"offline": dict(_OFF, count=150 if _t == "quick" else 400, budget_s=6 if _t == "quick" else 20)}

# thorough tier of every property: `reach` (which lines of /repo/src the check's own workload executed) and, where the
# statement is not tied to debug-assertion builds, `rel` (the same monitors in a release build)
import json as _json
import os as _os

_PROPS = _os.path.join(_os.path.dirname(_os.path.dirname(_os.path.abspath(__file__))), "properties.jsonl")
_ANCHORS = {}
try:
    for _l in open(_PROPS):
        _d = _json.loads(_l)
        _ANCHORS[_d["id"]] = _d.get("anchors", {}).get("files", [])
except OSError:
    pass
for _p, _pl in PLANS.items():
    _t = _pl["thorough"]
    _q = _pl["quick"]
    _t.setdefault("stages", [])
    _t.setdefault("stage_plans", {})
    _t["stages"] = list(_t["stages"])
    if _p != "C07":
        _t["stages"].append("rel")
        _t["stage_plans"]["rel"] = {"count": _q["count"] * 4, "budget_s": 40, "watchdog_s": 1200}
    _t["stages"].append("reach")
    _t["stage_plans"]["reach"] = {"shards": 4, "count": max(1, _q["count"] // 2), "budget_s": 8, "watchdog_s": 900,
                                  "anchors": _ANCHORS.get(_p, [])}

# obligations of the complete sweeps (a sweep that claims completeness has its own enumeration checked): counter -> minimum
PLANS["C16"]["quick"]["expect_min"] = {"c16.length-pairs-with-an-evaluated-case": 17 * 17}
PLANS["C16"]["thorough"]["expect_min"] = {"c16.length-pairs-with-an-evaluated-case": 25 * 25}
