"""Build flavours and sanitizer stages (DESIGN.md §3.2)."""
import json
import os
import re
import subprocess
import time

ROOT = os.path.dirname(os.path.dirname(os.path.abspath(__file__)))
TARGET = os.path.join(ROOT, "target")
TRIPLE = "x86_64-unknown-linux-gnu"

ASAN_FLAGS = "-Zsanitizer=address -Cforce-frame-pointers=yes --cap-lints=warn"
ASAN_OPTIONS = "detect_leaks=0:abort_on_error=1:halt_on_error=1:allocator_may_return_null=1"
MIRI1_FLAGS = "-Zmiri-disable-validation -Zmiri-ignore-leaks -Zmiri-disable-isolation"
MIRI2_FLAGS = "-Zmiri-ignore-leaks -Zmiri-disable-isolation"

# fp_root: where the fingerprints of this flavour live (sodg's are removed when /repo changed)
FLAVOURS = {
    "mon": {
        "dir": "harness",
        "env": {"CARGO_TARGET_DIR": TARGET},
        "fp_root": os.path.join(TARGET, "mon"),
        "build": ["cargo", "build", "--offline", "--profile", "mon"],
        "binary": "mon/sodg-monitor",
    },
    "rel": {
        "dir": "harness",
        "env": {"CARGO_TARGET_DIR": TARGET},
        "fp_root": os.path.join(TARGET, "release"),
        "build": ["cargo", "build", "--offline", "--release"],
        "binary": "release/sodg-monitor",
    },
    "asan": {
        "dir": "harness",
        "env": {"CARGO_TARGET_DIR": os.path.join(TARGET, "asan")},
        "rustflags": ASAN_FLAGS,
        "fp_root": os.path.join(TARGET, "asan"),
        "build": ["cargo", "+nightly", "build", "--offline", "--profile", "mon", "--target", TRIPLE],
        "binary": f"asan/{TRIPLE}/mon/sodg-monitor",
    },
    "miri1": {
        "dir": "harness",
        "env": {"CARGO_TARGET_DIR": os.path.join(TARGET, "miri1"), "MIRIFLAGS": MIRI1_FLAGS},
        "fp_root": os.path.join(TARGET, "miri1"),
        "build": ["cargo", "+nightly", "miri", "run", "--offline", "--", "canary", "none"],
        "binary": None,
    },
    "miri2": {
        "dir": "harness-miri2",
        "env": {"CARGO_TARGET_DIR": os.path.join(TARGET, "miri2"), "MIRIFLAGS": MIRI2_FLAGS},
        "fp_root": os.path.join(TARGET, "miri2"),
        "build": ["cargo", "+nightly", "miri", "run", "--offline", "--", "canary", "none"],
        "binary": None,
    },
}

FLAVOURS["cov"] = {
    # source-based coverage of /repo/src under a check's own workload (stage `reach`, thorough tier)
    "dir": "harness",
    # build scripts and proc-macros are instrumented too and would drop default_*.profraw into the package
    # directories (/repo among them): send those profiles into the flavour's own target directory
    "env": {"CARGO_TARGET_DIR": os.path.join(TARGET, "cov"),
            "LLVM_PROFILE_FILE": os.path.join(TARGET, "cov", "build-profiles", "b-%p-%m.profraw")},
    "rustflags": "-Cinstrument-coverage --cap-lints=warn",
    "fp_root": os.path.join(TARGET, "cov"),
    "build": ["cargo", "+nightly", "build", "--offline", "--profile", "mon"],
    "binary": "cov/mon/sodg-monitor",
}

SETUP_FLAVOURS = ["mon", "asan", "miri1", "miri2"]

_FP = re.compile(r"^sodg-[0-9a-f]+$")


def forget_sodg(flavour):
    """Remove cargo's fingerprints of the sodg crate so that it is rebuilt whatever the mtimes say."""
    root = FLAVOURS[flavour]["fp_root"]
    for d, subdirs, _ in os.walk(root):
        if os.path.basename(d) == ".fingerprint":
            for s in list(subdirs):
                if _FP.match(s):
                    subprocess.run(["rm", "-rf", os.path.join(d, s)])
            subdirs[:] = []


_versions = None


def tool_versions():
    global _versions
    if _versions is None:
        _versions = {}
        for name, cmd in (("rustc", ["rustc", "--version"]), ("cargo", ["cargo", "--version"]),
                          ("rustc_nightly", ["rustc", "+nightly", "--version"]),
                          ("miri", ["cargo", "+nightly", "miri", "--version"]),
                          ("valgrind", ["valgrind", "--version"])):
            try:
                _versions[name] = subprocess.run(cmd, capture_output=True, text=True, timeout=60).stdout.strip()
            except (OSError, subprocess.TimeoutExpired):
                _versions[name] = "?"
    return _versions


# ------------------------------------------------------------------------------------------------

MIRI_MEMORY_CLASSES = [
    ("out-of-bounds", re.compile(r"memory access failed|out-of-bounds|beyond the end of the allocation|pointer .* is dangling|dangling pointer")),
    ("use-after-free", re.compile(r"has been freed|use-after-free|dereferenced after")),
    ("double-free", re.compile(r"deallocat", re.I)),
    ("uninitialised-read", re.compile(r"uninitialized", re.I)),
]


def classify_miri(stderr):
    """Return (kind, headline): kind in {None, 'violation', 'other_ub'}."""
    m = re.search(r"error: Undefined Behavior: (.*)", stderr)
    if not m:
        if re.search(r"error: (unsupported operation|the evaluated program)", stderr):
            return ("other_ub", re.search(r"error: (.*)", stderr).group(1)[:300])
        return (None, "")
    head = m.group(1)
    for name, rx in MIRI_MEMORY_CLASSES:
        if rx.search(head):
            if name == "uninitialised-read" and "constructing invalid value" in head:
                continue
            return ("violation", f"{name}: {head[:300]}")
    # Stacked Borrows: an access outside the range the pointer was created for is a sub-object overflow
    sb = re.search(r"at alloc\d+\[(0x[0-9a-f]+)", head)
    rng = re.search(r"retag at offsets \[(0x[0-9a-f]+)\.\.(0x[0-9a-f]+)\]", stderr)
    if "borrow stack" in head and sb and rng:
        off = int(sb.group(1), 16)
        lo, hi = int(rng.group(1), 16), int(rng.group(2), 16)
        if off < lo or off >= hi:
            return ("violation", f"out-of-bounds inside an allocation (offset {off:#x} outside [{lo:#x}..{hi:#x})): {head[:240]}")
    return ("other_ub", head[:300])


def _run(cmd, env, cwd, timeout):
    try:
        p = subprocess.run(cmd, env=env, cwd=cwd, capture_output=True, text=True, timeout=timeout, errors="replace")
        return p.returncode, p.stdout, p.stderr
    except subprocess.TimeoutExpired as e:
        return "watchdog", (e.stdout or b"").decode(errors="replace") if isinstance(e.stdout, bytes) else (e.stdout or ""), \
            (e.stderr or b"").decode(errors="replace") if isinstance(e.stderr, bytes) else (e.stderr or "")


def _env_for(flavour, base_env):
    env = dict(base_env)
    spec = FLAVOURS[flavour]
    env.update(spec.get("env", {}))
    env["RUSTFLAGS"] = spec.get("rustflags", "--cap-lints=warn")
    return env


def _shard_cmd(prefix, prop, tier, seed, i, shards, count, workdir, budget, mode, out):
    return prefix + ["run", "--prop", prop, "--seed", str(seed), "--shard", str(i), "--shards", str(shards),
                     "--count", str(count), "--tier", tier, "--work", workdir,
                     "--replays", os.path.join(ROOT, "replays"), "--budget", str(budget), "--mode", mode, "--out", out]


def run_stage(stage, prop, tier, seed, plan, workdir, build, cargo_env, log):
    """Run the C07 workload under one instrument. Returns dict(coverage, violations, inconclusive, ...)."""
    res = {"coverage": {}, "violations": [], "inconclusive": [], "evaluations": 0, "nontrivial": [], "calls": 0,
           "samples": []}
    sp = plan["stage_plans"][stage]
    t0 = time.time()
    if stage == "offline":
        return run_offline(prop, tier, seed, sp, workdir, build, cargo_env, log)
    if stage == "reach":
        return run_reach(prop, tier, seed, plan, sp, workdir, build, cargo_env, log)
    try:
        if stage == "memcheck":
            binary, _, _ = build("mon")
            flavour = "mon"
        else:
            binary, _, _ = build(stage)
            flavour = stage
    except Exception as e:  # noqa: BLE001
        res["inconclusive"].append(f"{stage}: build failed: {str(e)[-1500:]}")
        return res
    env = _env_for(flavour, cargo_env())
    cwd = os.path.join(ROOT, FLAVOURS[flavour]["dir"])
    if stage == "asan":
        env["ASAN_OPTIONS"] = ASAN_OPTIONS
        prefix = [binary]
        canaries = [("oob", r"AddressSanitizer: heap-buffer-overflow")]
    elif stage in ("miri1", "miri2"):
        prefix = ["cargo", "+nightly", "miri", "run", "--offline", "--"]
        canaries = ([("oob", r"Undefined Behavior: .*(memory access failed|out-of-bounds|beyond the end)"),
                     ("uninit", r"Undefined Behavior: .*uninitialized")] if stage == "miri1"
                    else [("oob", r"Undefined Behavior"), ("subobj", r"borrow stack")])
    else:
        prefix = ["valgrind", "--error-exitcode=99", "--leak-check=no", "--track-origins=yes", "-q", binary]
        canaries = [("oob", r"Invalid read"), ("uninit", r"uninitialised")]
    # 1. canaries: the instrument must report a deliberately wrong access of the harness itself
    canary_res = {}
    for kind, rx in canaries:
        rc, so, se = _run(prefix + ["canary", kind], env, cwd, 900)
        ok = re.search(rx, se) is not None
        canary_res[f"{stage}_{kind}"] = "reported" if ok else f"NOT reported (rc={rc})"
        if not ok:
            res["inconclusive"].append(f"{stage}: canary {kind} was not reported, the instrument is not active")
    # control: a correct run is silent
    rc, so, se = _run(prefix + ["canary", "none"], env, cwd, 900)
    if rc != 0 or "canary none" not in so:
        res["inconclusive"].append(f"{stage}: control run failed rc={rc}: {se[-300:]}")
    res["coverage"]["canaries"] = canary_res
    if res["inconclusive"]:
        return res
    # 2. the hostile workload, sharded into short processes
    shards, count, par = sp["shards"], sp["count"], sp.get("parallel", os.cpu_count() or 4)
    procs, pending, done = [], list(range(shards)), []

    def start(i):
        out = os.path.join(workdir, f"shard-{stage}-{i}.json")
        errp = os.path.join(workdir, f"shard-{stage}-{i}.err")
        # every instrument gets its own histories
        stage_seed = seed * 1000 + {"asan": 1, "miri1": 2, "miri2": 3, "memcheck": 4}[stage]
        cmd = _shard_cmd(prefix, prop, tier, stage_seed, i, shards, count, workdir, sp["budget_s"], stage, out)
        errf = open(errp, "w")
        return (i, out, errp, subprocess.Popen(cmd, env=env, cwd=cwd, stdout=subprocess.DEVNULL, stderr=errf), errf,
                time.time())

    deadline = sp["watchdog_s"]
    while pending or procs:
        while pending and len(procs) < par:
            procs.append(start(pending.pop(0)))
        time.sleep(0.2)
        for pr in list(procs):
            i, out, errp, p, errf, st = pr
            rc = p.poll()
            if rc is None and time.time() - st > deadline:
                p.kill()
                p.wait()
                rc = "watchdog"
            if rc is not None:
                errf.close()
                procs.remove(pr)
                done.append((i, out, errp, rc))
    reports = 0
    tool_calls = 0
    for i, out, errp, rc in sorted(done):
        se = open(errp, errors="replace").read()
        data = None
        if os.path.exists(out):
            try:
                data = json.load(open(out))
            except Exception:  # noqa: BLE001
                data = None
        logp = os.path.join(workdir, f"c07-{stage}-{i}.log")
        last = ""
        if os.path.exists(logp):
            lines = open(logp, errors="replace").read().splitlines()
            last = " | ".join(lines[-3:])
        verdict = None
        if stage == "asan":
            m = re.search(r"ERROR: AddressSanitizer: ([a-z\-]+)", se)
            if m:
                verdict = ("violation", f"AddressSanitizer: {m.group(1)}; last calls: {last}")
        elif stage in ("miri1", "miri2"):
            kind, head = classify_miri(se)
            if kind == "violation":
                verdict = ("violation", f"Miri ({stage}): {head}; last calls: {last}")
            elif kind == "other_ub":
                verdict = ("other_ub", f"Miri ({stage}) reported UB outside the four classes of C07: {head}; last calls: {last}")
        else:
            if re.search(r"Invalid (read|write|free)|uninitialised|Mismatched free", se):
                first = re.search(r"==\d+== (Invalid.*|Conditional.*|Use of uninit.*|Mismatched.*)", se)
                verdict = ("violation", f"memcheck: {first.group(1) if first else 'error'}; last calls: {last}")
        if verdict and verdict[0] == "violation":
            reports += 1
            path = os.path.join(ROOT, "replays", f"{prop}-{seed}-{stage}-{i}.txt")
            with open(path, "w") as f:
                f.write(f"# {verdict[1]}\n# re-run: shard {i} of {shards}, seed {seed}, count {count}, mode {stage}\n")
                f.write(se[-8000:])
                if os.path.exists(logp):
                    f.write("\n# call log (last 200 lines)\n" + "\n".join(open(logp, errors="replace").read().splitlines()[-200:]))
            res["violations"].append({"message": verdict[1], "replay": path, "signature": f"C07:{stage}"})
            continue
        if verdict and verdict[0] == "other_ub":
            res["coverage"].setdefault("other_ub", []).append(verdict[1][:400])
            res["inconclusive"].append(verdict[1][:400])
            continue
        if data is None or rc != 0:
            if rc == "watchdog":
                res["inconclusive"].append(f"{stage} shard {i}: watchdog fired")
            else:
                res["inconclusive"].append(f"{stage} shard {i}: exited with {rc} without a sanitizer report: {se[-300:]}")
            continue
        res["evaluations"] += data["evaluations"]
        res["nontrivial"] += [f"{stage}:{h}" for h in data["nontrivial"]]
        res["calls"] += data["calls"]
        tool_calls += data["calls"]
        for v in data["violations"]:
            res["violations"].append(v)
        if data.get("inconclusive"):
            res["inconclusive"].append(f"{stage} shard {i}: {data['inconclusive']}")
        cnt = res["coverage"].setdefault("counters", {})
        for k, v in data["counters"].items():
            cnt[k] = cnt.get(k, 0) + v
    res["coverage"].update({"calls_under_tool": tool_calls, "processes": shards, "histories": res["evaluations"],
                            "reports": reports, "wall_s": round(time.time() - t0, 1)})
    log(f"  stage {stage}: {res['evaluations']} histories, {tool_calls} calls, {reports} reports, "
        f"{len(res['inconclusive'])} inconclusive, {time.time() - t0:.1f}s")
    return res


def run_offline(prop, tier, seed, sp, workdir, build, cargo_env, log):
    """Second oracle (DESIGN §3.12): dump call/return logs of histories the Rust monitors judged as held and
    re-judge them with the independent Python implementation; a disagreement is a defect of the machinery."""
    import sys
    res = {"coverage": {}, "violations": [], "inconclusive": [], "evaluations": 0, "nontrivial": [], "calls": 0, "samples": []}
    t0 = time.time()
    try:
        binary, _, _ = build("mon")
    except Exception as e:  # noqa: BLE001
        res["inconclusive"].append(f"offline: build failed: {str(e)[-500:]}")
        return res
    env = _env_for("mon", cargo_env())
    procs = []
    for i in range(sp["shards"]):
        out = os.path.join(workdir, f"shard-offline-{i}.json")
        cmd = _shard_cmd([binary], prop, tier, seed + 77, i, sp["shards"], sp["count"], workdir, sp["budget_s"], "dump", out)
        procs.append(subprocess.Popen(cmd, env=env, stdout=subprocess.DEVNULL, stderr=subprocess.DEVNULL))
    for p in procs:
        try:
            p.wait(timeout=sp["watchdog_s"])
        except subprocess.TimeoutExpired:
            p.kill()
            res["inconclusive"].append("offline: dump shard watchdog fired")
    pr = subprocess.run([sys.executable, os.path.join(ROOT, "offline", "check_log.py"), workdir, prop], capture_output=True, text=True)
    try:
        summary = json.loads(pr.stdout.strip().splitlines()[-1])
    except Exception:  # noqa: BLE001
        res["inconclusive"].append(f"offline: second oracle did not run: {pr.stderr[-300:]}")
        return res
    res["coverage"] = {"second_oracle": "offline/check_log.py (independent Python re-implementation of the C01 trace rules, the group "
                                        "model, data()/kid() read-back and next_id() freshness)", **summary,
                       "wall_s": round(time.time() - t0, 1)}
    if summary.get("disagreements", 0) > 0:
        res["inconclusive"].append(f"offline: the two oracle implementations disagree on {summary['disagreements']} histories: "
                                   f"{summary['first'][0]['message'] if summary.get('first') else ''}")
    if summary.get("histories", 0) < 100:
        res["inconclusive"].append(f"offline: only {summary.get('histories', 0)} histories were dumped")
    log(f"  stage offline: second oracle re-judged {summary.get('histories')} histories / {summary.get('calls')} calls, "
        f"{summary.get('disagreements')} disagreements, {time.time() - t0:.1f}s")
    return res


def _llvm_tool(name):
    try:
        root = subprocess.run(["rustc", "+nightly", "--print", "sysroot"], capture_output=True, text=True, timeout=60).stdout.strip()
    except (OSError, subprocess.TimeoutExpired):
        return None
    p = os.path.join(root, "lib", "rustlib", TRIPLE, "bin", name)
    return p if os.path.exists(p) else None


def _ranges(nums):
    out, start, prev = [], None, None
    for n in sorted(nums):
        if start is None:
            start = prev = n
        elif n == prev + 1:
            prev = n
        else:
            out.append(f"{start}-{prev}" if prev > start else str(start))
            start = prev = n
    if start is not None:
        out.append(f"{start}-{prev}" if prev > start else str(start))
    return out


def run_reach(prop, tier, seed, plan, sp, workdir, build, cargo_env, log):
    """Reach of the workload (DESIGN §10 'reach'): the check's own shards are run once more in a build with LLVM
    source-based coverage counters, and the lines of /repo/src they executed are reported per file. Never a
    violation; an anchor file of the property in which no line at all was executed makes the run inconclusive
    (the workload did not reach the code the property is anchored in)."""
    res = {"coverage": {}, "violations": [], "inconclusive": [], "evaluations": 0, "nontrivial": [], "calls": 0, "samples": []}
    t0 = time.time()
    repo = os.environ.get("SODG_REPO", "/repo")
    profdata, cov = _llvm_tool("llvm-profdata"), _llvm_tool("llvm-cov")
    if not profdata or not cov:
        res["inconclusive"].append("reach: llvm-profdata / llvm-cov not found in the nightly sysroot")
        return res
    try:
        binary, _, _ = build("cov")
    except Exception as e:  # noqa: BLE001
        res["inconclusive"].append(f"reach: build failed: {str(e)[-800:]}")
        return res
    env = _env_for("cov", cargo_env())
    env["LLVM_PROFILE_FILE"] = os.path.join(workdir, "reach-%p.profraw")
    procs = []
    for i in range(sp["shards"]):
        out = os.path.join(workdir, f"shard-reach-{i}.json")
        cmd = [binary, "run", "--prop", prop, "--seed", str(seed + 31), "--shard", str(i), "--shards", str(sp["shards"]),
               "--count", str(sp["count"]), "--tier", tier, "--work", workdir, "--replays", os.path.join(workdir, "reach-replays"),
               "--budget", str(sp["budget_s"]), "--out", out]
        if plan.get("mode"):
            cmd += ["--mode", plan["mode"]]
        procs.append(subprocess.Popen(cmd, env=env, stdout=subprocess.DEVNULL, stderr=subprocess.DEVNULL))
    for p in procs:
        try:
            p.wait(timeout=sp["watchdog_s"])
        except subprocess.TimeoutExpired:
            p.kill()
            p.wait()
    raws = [os.path.join(workdir, f) for f in os.listdir(workdir) if f.startswith("reach-") and f.endswith(".profraw")]
    if not raws:
        res["inconclusive"].append("reach: no coverage profile was written")
        return res
    merged = os.path.join(workdir, "reach.profdata")
    pr = subprocess.run([profdata, "merge", "-sparse", "-o", merged] + raws, capture_output=True, text=True)
    if pr.returncode != 0:
        res["inconclusive"].append(f"reach: llvm-profdata failed: {pr.stderr[-300:]}")
        return res
    pr = subprocess.run([cov, "export", binary, f"-instr-profile={merged}", "-format=lcov", os.path.join(repo, "src")],
                        capture_output=True, text=True)
    if pr.returncode != 0 or "SF:" not in pr.stdout:
        res["inconclusive"].append(f"reach: llvm-cov failed: {pr.stderr[-300:]}")
        return res
    files, cur = {}, None
    for line in pr.stdout.splitlines():
        if line.startswith("SF:"):
            cur = files.setdefault(os.path.relpath(line[3:], repo), {"lines": {}, "fn": {}})
        elif cur is None:
            continue
        elif line.startswith("DA:"):
            ln, cnt = line[3:].split(",")[:2]
            cur["lines"][int(ln)] = cur["lines"].get(int(ln), 0) + int(cnt)
        elif line.startswith("FNDA:"):
            cnt, name = line[5:].split(",", 1)
            cur["fn"][name] = cur["fn"].get(name, 0) + int(cnt)
    per_file, tot, hit = {}, 0, 0
    for f, d in sorted(files.items()):
        if f.endswith("verif.rs"):
            continue
        lt, lh = len(d["lines"]), sum(1 for c in d["lines"].values() if c > 0)
        tot, hit = tot + lt, hit + lh
        per_file[f] = {"lines_instrumented": lt, "lines_executed": lh,
                       "functions_instantiated": len(d["fn"]), "functions_executed": sum(1 for c in d["fn"].values() if c > 0),
                       "lines_never_executed": _ranges([n for n, c in d["lines"].items() if c == 0])[:60]}
    anchors = [a for a in sp.get("anchors", []) if a.startswith("src/")]
    anchor_cov, not_reached = {}, []
    for a in anchors:
        pf = per_file.get(a)
        if pf is None:
            continue  # a file without executable code (or compiled out)
        anchor_cov[a] = f"{pf['lines_executed']}/{pf['lines_instrumented']}"
        if pf["lines_instrumented"] > 0 and pf["lines_executed"] == 0:
            not_reached.append(a)
    # the anchors of a property also name files that merely call the anchored mechanism (slice.rs and merge.rs call
    # add(): anchors of C04) - a workload need not drive those. Reaching NONE of the anchored code is a broken workload.
    if anchor_cov and len(not_reached) == len(anchor_cov):
        res["inconclusive"].append(f"reach: no line of any anchor file ({', '.join(not_reached)}) was executed by this check's workload")
    res["coverage"] = {
        "what": "lines of /repo/src executed by this check's own workload (LLVM source-based coverage, cfg(test) code not compiled; "
                "generic code is merged over all instantiations); says where the monitors looked, not that anything is verified",
        "processes": sp["shards"], "profiles_merged": len(raws),
        "lines_instrumented": tot, "lines_executed": hit,
        "anchor_files_lines_executed": anchor_cov, "anchor_files_not_reached": not_reached, "per_file": per_file, "wall_s": round(time.time() - t0, 1)}
    log(f"  stage reach: {hit}/{tot} lines of /repo/src executed by this workload; anchors {anchor_cov}, {time.time() - t0:.1f}s")
    return res
