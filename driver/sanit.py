"""Build flavours and sanitizer stages (DESIGN.md §3.2)."""
import subprocess

FLAVOURS = {
    "mon": {
        "dir": "harness",
        "clean": ["cargo", "clean", "--offline", "--profile", "mon", "-p", "sodg"],
        "build": ["cargo", "build", "--offline", "--profile", "mon"],
        "binary": "mon/sodg-monitor",
    },
    "rel": {
        "dir": "harness",
        "clean": ["cargo", "clean", "--offline", "--release", "-p", "sodg"],
        "build": ["cargo", "build", "--offline", "--release"],
        "binary": "release/sodg-monitor",
    },
}

SETUP_FLAVOURS = ["mon"]

_versions = None


def tool_versions():
    global _versions
    if _versions is None:
        _versions = {}
        for name, cmd in (("rustc", ["rustc", "--version"]), ("cargo", ["cargo", "--version"])):
            try:
                _versions[name] = subprocess.run(cmd, capture_output=True, text=True).stdout.strip()
            except OSError:
                _versions[name] = "?"
    return _versions


def run_stage(stage, prop, tier, seed, plan, workdir, build, run_shards, aggregate, log):
    raise NotImplementedError(stage)
