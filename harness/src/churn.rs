//! Structured workload for sustained operation (C06): hundreds of create–put–read cycles over a
//! rotating id set, 0..=13 long-lived groups kept alive meanwhile, several cycles in flight so
//! that group slots are freed in non-FIFO order.

use crate::gen::gen_data;
use crate::model::{Model, MAX_GROUPS};
use crate::ops::Op;
use crate::rng::Rng;
use sodg::Label;
use std::collections::VecDeque;

struct Plan {
    members: Vec<usize>,
    queue: VecDeque<Op>,
    /// reads are appended once the build part is done
    reads_planned: bool,
}

pub struct ChurnGen {
    pub rng: Rng,
    pub labels: Vec<Label>,
    inflight: Vec<Plan>,
    max_inflight: usize,
    pub long_lived: usize,
    long_built: usize,
    pending: Vec<usize>,
    pub cycles_started: u64,
    max_group: usize,
    /// Hand-overs: one churn history in three goes on, every so many calls, with a reloaded image
    /// (checkpoint + restore) or with a clone of the graph.
    checkpoint_every: Option<usize>,
}

impl ChurnGen {
    pub fn new(seed: u64, n: usize, cap: usize) -> Self {
        let mut rng = Rng::new(seed);
        let labels = crate::gen::label_universe(&mut rng, n.clamp(1, 4));
        let long_lived = *rng.pick(&[0usize, 0, 1, 2, 3, 5, 8, 10, 12, 13, 13]);
        // every group needs >= 2 vertices: respect the capacity
        let long_lived = long_lived.min(cap.saturating_sub(4) / 2);
        let room = MAX_GROUPS - long_lived;
        let max_inflight = rng.range(1, 3).min(room).max(1);
        let max_group = *rng.pick(&[2usize, 2, 3, 4, 6, 16]);
        let checkpoint_every = if rng.chance(1, 3) { Some(rng.range(15, 150)) } else { None };
        Self {
            rng,
            labels,
            inflight: vec![],
            max_inflight,
            long_lived,
            long_built: 0,
            pending: vec![],
            cycles_started: 0,
            max_group,
            checkpoint_every,
        }
    }

    pub fn note_next_id(&mut self, id: usize) {
        self.pending.push(id);
    }

    fn fresh_ids(&mut self, m: &Model, k: usize, reserved: &[usize]) -> Option<Vec<usize>> {
        let mut absent: Vec<usize> =
            m.absent_ids().into_iter().filter(|v| !reserved.contains(v)).collect();
        if absent.len() < k {
            return None;
        }
        // prefer recycled ids, in rotating order
        let mut out = vec![];
        let mut grave: Vec<usize> = absent.iter().copied().filter(|v| m.graveyard.contains(v)).collect();
        self.rng.shuffle(&mut grave);
        while out.len() < k {
            let v = if !grave.is_empty() && self.rng.chance(2, 3) {
                grave.pop().unwrap()
            } else {
                let i = self.rng.below(absent.len());
                absent[i]
            };
            if !out.contains(&v) {
                out.push(v);
                absent.retain(|x| *x != v);
                grave.retain(|x| *x != v);
            }
            if absent.is_empty() && out.len() < k {
                return None;
            }
        }
        Some(out)
    }

    fn plan_group(&mut self, m: &Model, size: usize, with_reads: bool, reserved: &[usize]) -> Option<Plan> {
        let ids = self.fresh_ids(m, size, reserved)?;
        let mut q = VecDeque::new();
        // shape: puts before bind / after bind / overwritten
        let shape = self.rng.below(4);
        for v in &ids {
            q.push_back(Op::Add(*v));
        }
        let mut holders: Vec<usize> = vec![];
        if self.rng.chance(1, 4) {
            // a datum put AND read while the vertex is still ungrouped (it joins the group as "read")
            let v = *self.rng.pick(&ids);
            q.push_back(Op::Put(v, gen_data(&mut self.rng, true)));
            q.push_back(Op::Data(v));
            if self.rng.chance(1, 3) {
                q.push_back(Op::Data(v));
            }
        }
        if shape == 1 || shape == 3 {
            // put before any bind on one or two members
            let k = self.rng.range(1, 2.min(ids.len()));
            for _ in 0..k {
                let v = *self.rng.pick(&ids);
                q.push_back(Op::Put(v, gen_data(&mut self.rng, true)));
                if !holders.contains(&v) {
                    holders.push(v);
                }
            }
        }
        for i in 1..ids.len() {
            let p = ids[self.rng.below(i)];
            let l = *self.rng.pick(&self.labels);
            // direction at random
            if self.rng.chance(1, 2) {
                q.push_back(Op::Bind(p, ids[i], l));
            } else {
                q.push_back(Op::Bind(ids[i], p, l));
            }
        }
        if shape == 0 || shape == 2 || holders.is_empty() {
            let k = self.rng.range(1, 3.min(ids.len()));
            for _ in 0..k {
                let v = *self.rng.pick(&ids);
                q.push_back(Op::Put(v, gen_data(&mut self.rng, true)));
                if !holders.contains(&v) {
                    holders.push(v);
                }
            }
        }
        if shape >= 2 {
            // overwrite an unread datum
            let v = *self.rng.pick(&holders);
            q.push_back(Op::Put(v, gen_data(&mut self.rng, true)));
        }
        Some(Plan { members: ids, queue: q, reads_planned: !with_reads })
    }

    /// Next op; None when nothing legal can be produced.
    pub fn next_op(&mut self, m: &Model) -> Option<Op> {
        for _ in 0..50 {
            // 1. long-lived groups first
            if self.long_built < self.long_lived && self.inflight.is_empty() {
                let size = self.rng.range(2, 3);
                let with_data = self.rng.chance(1, 2);
                let reserved: Vec<usize> = vec![];
                if let Some(mut p) = self.plan_group(m, size, false, &reserved) {
                    if !with_data {
                        p.queue.retain(|o| !matches!(o, Op::Put(..)));
                    }
                    p.reads_planned = true; // never read: stays alive
                    self.long_built += 1;
                    self.inflight.push(p);
                } else {
                    self.long_lived = self.long_built;
                }
            }
            // 2. start new cycles
            let active_cycles = self.inflight.len();
            if active_cycles < self.max_inflight && m.live_groups() + active_cycles < MAX_GROUPS {
                let size = if self.rng.chance(1, 12) { self.max_group } else { self.rng.range(2, self.max_group.min(4)) };
                let reserved: Vec<usize> = self.inflight.iter().flat_map(|p| p.members.clone()).collect();
                if let Some(p) = self.plan_group(m, size, true, &reserved) {
                    self.cycles_started += 1;
                    self.inflight.push(p);
                } else if self.inflight.is_empty() {
                    return None;
                }
            }
            if self.inflight.is_empty() {
                return None;
            }
            if let Some(k) = self.checkpoint_every {
                if self.rng.chance(1, k) {
                    return Some(if self.rng.chance(2, 3) { Op::SaveLoad { swap: true } } else { Op::Clone { swap: true } });
                }
            }
            // occasional allocator use
            if self.rng.chance(1, 40) && m.peek_next_id().is_some() {
                return Some(Op::NextId);
            }
            let i = self.rng.below(self.inflight.len());
            let plan = &mut self.inflight[i];
            if plan.queue.is_empty() {
                if plan.reads_planned {
                    self.inflight.swap_remove(i);
                    continue;
                }
                // plan the reads: every unread member, random order, some repeated reads first
                let mut unread: Vec<usize> = plan
                    .members
                    .iter()
                    .copied()
                    .filter(|v| m.verts.get(v).is_some_and(|x| x.data.is_some() && x.unread))
                    .collect();
                self.rng.shuffle(&mut unread);
                for (k, v) in unread.iter().enumerate() {
                    plan.queue.push_back(Op::Data(*v));
                    if k + 1 < unread.len() && self.rng.chance(1, 4) {
                        plan.queue.push_back(Op::Data(*v)); // repeated read, must not collect
                    }
                }
                plan.reads_planned = true;
                continue;
            }
            let op = plan.queue.pop_front().unwrap();
            if m.legal(&op) {
                return Some(op);
            }
            // an op became illegal (e.g. its group died early): drop the plan
            self.inflight.swap_remove(i);
        }
        None
    }
}
