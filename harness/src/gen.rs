//! Seeded, model-guided workload generators (DESIGN.md §3.6). The model is consulted only for
//! legality (the properties quantify over histories within the limits), never for verdicts here.

use crate::model::{Model, MAX_GROUPS, MAX_GROUP_SIZE};
use crate::ops::{str_label, HexSpec, Op};
use crate::rng::Rng;
use sodg::Label;

#[derive(Clone, Copy, Debug, PartialEq, Eq)]
pub enum Profile {
    Classic,
    PutFirst,
    Overwrite,
    ReAdd,
    StaticReads,
    Churn,
    Cross,
    Full,
    Mixed,
    Labels,
}

pub const ALL_PROFILES: [Profile; 10] = [
    Profile::Classic,
    Profile::PutFirst,
    Profile::Overwrite,
    Profile::ReAdd,
    Profile::StaticReads,
    Profile::Churn,
    Profile::Cross,
    Profile::Full,
    Profile::Mixed,
    Profile::Labels,
];

impl Profile {
    pub fn name(self) -> &'static str {
        match self {
            Profile::Classic => "classic",
            Profile::PutFirst => "put-first",
            Profile::Overwrite => "overwrite",
            Profile::ReAdd => "re-add",
            Profile::StaticReads => "static-reads",
            Profile::Churn => "churn",
            Profile::Cross => "cross",
            Profile::Full => "full",
            Profile::Mixed => "mixed",
            Profile::Labels => "labels",
        }
    }
    pub fn parse(s: &str) -> Option<Profile> {
        ALL_PROFILES.iter().copied().find(|p| p.name() == s)
    }
}

/// Weights of op kinds: add-fresh, add-present, bind, put, data, kid, kids, next_id,
/// clone, saveload, slice, merge, script, export.
#[derive(Clone, Copy)]
struct W([u32; 14]);

const K_ADDF: usize = 0;
const K_ADDP: usize = 1;
const K_BIND: usize = 2;
const K_PUT: usize = 3;
const K_DATA: usize = 4;
const K_KID: usize = 5;
const K_KIDS: usize = 6;
const K_NEXT: usize = 7;
const K_CLONE: usize = 8;
const K_SAVE: usize = 9;
const K_SLICE: usize = 10;
const K_MERGE: usize = 11;
const K_SCRIPT: usize = 12;
const K_EXPORT: usize = 13;

fn weights(p: Profile) -> W {
    match p {
        //                      addf addp bind put data kid kids next clone save slice merge script export
        Profile::Classic => W([20, 0, 30, 15, 25, 3, 3, 4, 0, 0, 0, 0, 0, 0]),
        Profile::PutFirst => W([22, 0, 22, 28, 22, 2, 2, 2, 0, 0, 0, 0, 0, 0]),
        Profile::Overwrite => W([15, 1, 20, 38, 20, 2, 2, 2, 0, 0, 0, 0, 0, 0]),
        Profile::ReAdd => W([20, 18, 20, 14, 20, 2, 2, 4, 0, 0, 0, 0, 0, 0]),
        Profile::StaticReads => W([25, 3, 10, 28, 28, 2, 2, 2, 0, 0, 0, 0, 0, 0]),
        Profile::Churn => W([22, 1, 22, 22, 30, 0, 0, 3, 0, 0, 0, 0, 0, 0]),
        Profile::Cross => W([18, 1, 38, 14, 22, 3, 3, 1, 0, 0, 0, 0, 0, 0]),
        Profile::Full => W([25, 1, 45, 10, 12, 2, 3, 2, 0, 0, 0, 0, 0, 0]),
        Profile::Mixed => W([16, 3, 20, 12, 16, 2, 2, 6, 4, 4, 3, 5, 4, 3]),
        Profile::Labels => W([14, 1, 45, 10, 10, 10, 8, 2, 0, 0, 0, 0, 0, 0]),
    }
}

pub struct Gen {
    pub rng: Rng,
    pub profile: Profile,
    pub labels: Vec<Label>,
    w: W,
    /// Ids handed out by next_id() and not added yet.
    pub pending: Vec<usize>,
    /// Target population (vertices) before the generator prefers reads over adds.
    pub target_pop: usize,
    pub allow_noncanon_data: bool,
    pub allow_script: bool,
    /// NextId / Merge / Script are not drawn before this many ops (C08: aligned allocators at the first save).
    pub allocator_ops_after: usize,
    pub drawn: usize,
    /// Extra weight for saveload / clone (twin monitors).
    pub boost_save: u32,
    pub boost_clone: u32,
    /// Ops emitted first (directed prelude), while they are legal.
    pub prelude: std::collections::VecDeque<Op>,
}

// no 'Δ': v_print() uses it as the data marker, a label Δ would make its output ambiguous
const GREEK: [char; 8] = ['x', 'ρ', 'σ', 'π', 'φ', 'δ', '𝜑', 'ξ'];
const WORDS: [&str; 10] = ["foo", "bar", "hello", "ab", "βγδεζηθι", "x1", "12345678", "+b", "q-r_s", "ωω"];

pub fn label_universe(rng: &mut Rng, k: usize) -> Vec<Label> {
    let mut out: Vec<Label> = vec![];
    while out.len() < k {
        let l = match rng.below(3) {
            0 => Label::Alpha(*rng.pick(&[0usize, 1, 2, 3, 7, 10, 99, 12345])),
            1 => Label::Greek(*rng.pick(&GREEK)),
            _ => str_label(*rng.pick(&WORDS)),
        };
        if !out.contains(&l) {
            out.push(l);
        }
    }
    out
}

pub fn gen_data(rng: &mut Rng, noncanon: bool) -> HexSpec {
    // mostly around the 8-byte inline boundary; one in eight from a wider set of lengths
    let len = if rng.chance(1, 8) {
        *rng.pick(&[2usize, 4, 5, 6, 10, 15, 17, 24, 31, 32, 33, 63, 64, 65, 100, 127, 128, 129, 255, 256, 257, 300])
    } else {
        *rng.pick(&[0usize, 1, 1, 3, 7, 8, 8, 9, 16, 40])
    };
    let bytes = rng.bytes(len);
    if noncanon && rng.chance(1, 5) {
        if len <= 8 && rng.chance(1, 2) {
            let mut a = [0u8; 8];
            for (i, x) in a.iter_mut().enumerate() {
                *x = if i < len { bytes[i] } else { 0xA0 + i as u8 };
            }
            HexSpec::Bytes(a, len)
        } else {
            HexSpec::Vector(bytes)
        }
    } else {
        HexSpec::Canon(bytes)
    }
}

impl Gen {
    pub fn new(seed: u64, profile: Profile, n: usize, cap: usize) -> Self {
        let mut rng = Rng::new(seed);
        let nl = match profile {
            // half of these histories have enough labels to fill a vertex completely (N of them)
            Profile::Full | Profile::Labels => {
                if rng.chance(1, 2) {
                    n + rng.range(0, 2)
                } else {
                    rng.range(n.min(3), (n + 2).min(18))
                }
            }
            _ => rng.range(1, 6),
        };
        let nl = nl.max(1);
        let mut labels = label_universe(&mut rng, nl.min(6));
        // more labels than the mixed universe can hold: extend with alphas
        let mut k = 100;
        while labels.len() < nl {
            let l = Label::Alpha(k);
            if !labels.contains(&l) {
                labels.push(l);
            }
            k += 1;
        }
        let target_pop = match profile {
            Profile::Full => cap.min(40),
            Profile::Churn => cap.min(rng.range(6, 30)),
            _ => cap.min(rng.range(4, 24)),
        };
        Self {
            rng,
            profile,
            labels,
            w: weights(profile),
            pending: vec![],
            target_pop,
            allow_noncanon_data: true,
            allow_script: true,
            allocator_ops_after: 0,
            drawn: 0,
            boost_save: 0,
            boost_clone: 0,
            prelude: std::collections::VecDeque::new(),
        }
    }

    /// Add label VALUES that are not the canonical parse of their own printout (a one-character
    /// `Str`, inner blanks, an alpha-looking `Str`, `Greek('α')`, the all-blank `Str`). Only for
    /// properties that treat labels as values (C02, C03, C08, C10), never for text parse-back.
    pub fn add_noncanon_labels(&mut self) {
        let mut pool = vec![
            Label::Str(['x', ' ', ' ', ' ', ' ', ' ', ' ', ' ']),
            Label::Str(['a', ' ', 'b', ' ', ' ', ' ', ' ', ' ']),
            Label::Str(['α', '1', ' ', ' ', ' ', ' ', ' ', ' ']),
            Label::Greek('α'),
            Label::Str([' '; 8]),
            Label::Str(['ρ', ' ', ' ', ' ', ' ', ' ', ' ', ' ']),
            Label::Greek(' '),
        ];
        self.rng.shuffle(&mut pool);
        let k = self.rng.range(1, 3);
        for l in pool.into_iter().take(k) {
            if !self.labels.contains(&l) {
                self.labels.push(l);
            }
        }
        // and the canonical twin of one of them, so that the two must be kept apart
        for l in [Label::Greek('x'), Label::Alpha(1), Label::Greek('ρ')] {
            if self.rng.chance(1, 2) && !self.labels.contains(&l) {
                self.labels.push(l);
            }
        }
    }

    /// Pairs of distinct label values whose printed text is the same (a canonical value and a
    /// hand-built one): printers must still list both edges.
    pub fn add_colliding_labels(&mut self) {
        let sp = |t: &str| {
            let mut a = [' '; 8];
            for (i, c) in t.chars().enumerate() {
                a[i] = c;
            }
            Label::Str(a)
        };
        let pairs = [
            (Label::Greek('x'), sp("x")),
            (Label::Alpha(1), sp("α1")),
            (sp("ab"), sp("a b")),
            (Label::Greek('ρ'), sp("ρ")),
        ];
        let (a, b) = pairs[self.rng.below(pairs.len())];
        for l in [a, b] {
            if !self.labels.contains(&l) {
                self.labels.insert(0, l);
            }
        }
    }

    pub fn label(&mut self) -> Label {
        *self.rng.pick(&self.labels)
    }

    fn pick_absent(&mut self, m: &Model) -> Option<usize> {
        let absent = m.absent_ids();
        if absent.is_empty() {
            return None;
        }
        // ids handed out by next_id() first
        self.pending.retain(|v| !m.present(*v));
        if !self.pending.is_empty() && self.rng.chance(3, 4) {
            let i = self.rng.below(self.pending.len());
            return Some(self.pending.swap_remove(i));
        }
        let grave: Vec<usize> = m.graveyard.iter().copied().collect();
        match self.rng.below(11) {
            0..=3 if !grave.is_empty() => Some(*self.rng.pick(&grave)),
            4..=5 => Some(absent[0]),
            // the far end of the store: the last ids below the capacity
            10 => Some(absent[absent.len() - 1 - self.rng.below(absent.len().min(3))]),
            6 => {
                // around the allocator position
                let cands: Vec<usize> = [m.pos.wrapping_sub(1), m.pos, m.pos + 1, m.pos + 2]
                    .into_iter()
                    .filter(|v| *v < m.cap && !m.present(*v))
                    .collect();
                if cands.is_empty() {
                    Some(*self.rng.pick(&absent))
                } else {
                    Some(*self.rng.pick(&cands))
                }
            }
            _ => Some(*self.rng.pick(&absent)),
        }
    }

    fn ungrouped(m: &Model) -> Vec<usize> {
        m.verts.iter().filter(|(_, x)| x.group.is_none()).map(|(v, _)| *v).collect()
    }
    fn grouped(m: &Model) -> Vec<usize> {
        m.verts.iter().filter(|(_, x)| x.group.is_some()).map(|(v, _)| *v).collect()
    }

    fn gen_bind(&mut self, m: &Model) -> Option<Op> {
        let ug = Self::ungrouped(m);
        let gr = Self::grouped(m);
        // hub: keep binding new labels from the vertex that already has most, until it holds N,
        // then re-bind labels of the full vertex
        if matches!(self.profile, Profile::Full | Profile::Labels) && self.rng.chance(1, 2) {
            if let Some((hub, hx)) = m.verts.iter().max_by_key(|(_, x)| x.edges.len()) {
                let keys = m.keys();
                for _ in 0..6 {
                    let v2 = *self.rng.pick(&keys);
                    let l = if hx.edges.len() < m.n {
                        let fresh: Vec<Label> = self.labels.iter().copied().filter(|l| !hx.edges.iter().any(|(k, _)| k == l)).collect();
                        if fresh.is_empty() {
                            break;
                        }
                        *self.rng.pick(&fresh)
                    } else {
                        hx.edges[self.rng.below(hx.edges.len())].0
                    };
                    if m.legal_bind(*hub, v2, l) {
                        return Some(Op::Bind(*hub, v2, l));
                    }
                }
            }
        }
        for _ in 0..12 {
            // arm choice: u/u, u/g, g/u, g/g
            let arm_w: [u32; 4] = match self.profile {
                Profile::Cross => [20, 20, 20, 40],
                Profile::Full => [20, 35, 35, 10],
                Profile::Labels => [10, 20, 20, 50],
                _ => [30, 25, 25, 20],
            };
            let arm = self.rng.weighted(&arm_w);
            let (s1, s2) = match arm {
                0 => (&ug, &ug),
                1 => (&ug, &gr),
                2 => (&gr, &ug),
                _ => (&gr, &gr),
            };
            if s1.is_empty() || s2.is_empty() {
                continue;
            }
            let v1 = *self.rng.pick(s1);
            let v2 = *self.rng.pick(s2);
            if v1 == v2 {
                continue;
            }
            if arm == 0 && m.live_groups() >= MAX_GROUPS {
                continue;
            }
            // label: overwrite an existing one sometimes
            let x1 = &m.verts[&v1];
            let l = if !x1.edges.is_empty() && self.rng.chance(1, 3) {
                x1.edges[self.rng.below(x1.edges.len())].0
            } else {
                self.label()
            };
            if m.legal_bind(v1, v2, l) {
                return Some(Op::Bind(v1, v2, l));
            }
            // vertex full: re-use one of its labels
            if !x1.edges.is_empty() {
                let l = x1.edges[self.rng.below(x1.edges.len())].0;
                if m.legal_bind(v1, v2, l) {
                    return Some(Op::Bind(v1, v2, l));
                }
            }
        }
        None
    }

    fn pick_by<F: Fn(&crate::model::MV) -> bool>(&mut self, m: &Model, f: F) -> Option<usize> {
        let c: Vec<usize> = m.verts.iter().filter(|(_, x)| f(x)).map(|(v, _)| *v).collect();
        if c.is_empty() {
            None
        } else {
            Some(*self.rng.pick(&c))
        }
    }

    fn gen_put(&mut self, m: &Model) -> Option<Op> {
        if m.verts.is_empty() {
            return None;
        }
        // state choice: empty / unread / read  x  grouped / ungrouped
        let sw: [u32; 3] = match self.profile {
            Profile::Overwrite => [25, 45, 30],
            Profile::PutFirst | Profile::StaticReads => [60, 20, 20],
            _ => [55, 20, 25],
        };
        let gw: u32 = match self.profile {
            Profile::PutFirst | Profile::StaticReads => 30,
            _ => 70,
        };
        for _ in 0..6 {
            let st = self.rng.weighted(&sw);
            let want_grouped = self.rng.below(100) < gw as usize;
            let v = self.pick_by(m, |x| {
                let s = if x.data.is_none() {
                    0
                } else if x.unread {
                    1
                } else {
                    2
                };
                s == st && x.group.is_some() == want_grouped
            });
            if let Some(v) = v {
                let d = gen_data(&mut self.rng, self.allow_noncanon_data);
                return Some(Op::Put(v, d));
            }
        }
        let keys = m.keys();
        let v = *self.rng.pick(&keys);
        Some(Op::Put(v, gen_data(&mut self.rng, self.allow_noncanon_data)))
    }

    fn gen_data_op(&mut self, m: &Model) -> Option<Op> {
        if m.verts.is_empty() {
            return None;
        }
        let sw: [u32; 3] = match self.profile {
            Profile::StaticReads => [20, 50, 30],
            Profile::Churn => [3, 90, 7],
            _ => [10, 70, 20],
        };
        for _ in 0..6 {
            let st = self.rng.weighted(&sw);
            let v = self.pick_by(m, |x| {
                let s = if x.data.is_none() {
                    0
                } else if x.unread {
                    1
                } else {
                    2
                };
                s == st
            });
            if let Some(v) = v {
                return Some(Op::Data(v));
            }
        }
        let keys = m.keys();
        Some(Op::Data(*self.rng.pick(&keys)))
    }

    /// A random ordered tree as primitive ops on a fresh graph: returns (ops, root).
    pub fn gen_tree(&mut self, cap: usize, n: usize, max_v: usize) -> (Vec<Op>, usize) {
        let size = self.rng.range(1, max_v.max(1));
        let mut ids: Vec<usize> = vec![];
        while ids.len() < size.min(cap) {
            let v = if self.rng.chance(1, 2) { self.rng.below(cap.min(size + 3)) } else { self.rng.below(cap) };
            if !ids.contains(&v) {
                ids.push(v);
            }
        }
        let mut ops = vec![];
        let mut outdeg = vec![0usize; ids.len()];
        let mut used: Vec<Vec<Label>> = vec![vec![]; ids.len()];
        ops.push(Op::Add(ids[0]));
        let mut placed = 1;
        for i in 1..ids.len() {
            // parent among placed with room for a label
            let mut parent = None;
            for _ in 0..8 {
                let p = self.rng.below(placed);
                if outdeg[p] < n && used[p].len() < self.labels.len() {
                    parent = Some(p);
                    break;
                }
            }
            let Some(p) = parent else { break };
            let mut l = self.label();
            let mut tries = 0;
            while used[p].contains(&l) && tries < 20 {
                l = self.label();
                tries += 1;
            }
            if used[p].contains(&l) {
                break;
            }
            used[p].push(l);
            outdeg[p] += 1;
            ops.push(Op::Add(ids[i]));
            ops.push(Op::Bind(ids[p], ids[i], l));
            placed += 1;
        }
        // data placement
        let dm = self.rng.below(4);
        for id in ids.iter().take(placed) {
            let put = match dm {
                0 => false,
                1 => true,
                _ => self.rng.chance(1, 2),
            };
            if put {
                let d = gen_data(&mut self.rng, self.allow_noncanon_data);
                // after bind or before: insert at a random position after the add of this id
                let pos_add = ops.iter().position(|o| matches!(o, Op::Add(v) if v == id)).unwrap();
                let at = self.rng.range(pos_add + 1, ops.len());
                ops.insert(at, Op::Put(*id, d));
            }
        }
        // sometimes a datum of the right graph was already read there (the legality check drops the
        // case if that read collects part of the tree)
        if self.rng.chance(1, 3) {
            let holders: Vec<usize> = ops.iter().filter_map(|o| if let Op::Put(v, _) = o { Some(*v) } else { None }).collect();
            if !holders.is_empty() {
                let v = *self.rng.pick(&holders);
                ops.push(Op::Data(v));
            }
        }
        (ops, ids[0])
    }

    fn gen_merge(&mut self, m: &Model) -> Option<Op> {
        if m.verts.is_empty() {
            return None;
        }
        let keys = m.keys();
        for _ in 0..6 {
            let (h, right) = self.gen_tree(m.cap, m.n, 6);
            let left = *self.rng.pick(&keys);
            let op = Op::Merge { h, left, right };
            if m.legal(&op) {
                return Some(op);
            }
        }
        None
    }

    fn gen_script(&mut self, m: &Model) -> Option<Op> {
        let mut sg = crate::scriptgen::ScriptGen::new(self.rng.next(), &self.labels);
        let cmds = sg.ast(m, 1, 8)?;
        // one script in five is malformed in one command: Err, the commands before it applied, and whatever a
        // failing deployment leaves behind (allocator, variables) meets the rest of the history
        let fault = if self.rng.chance(1, 5) { crate::scriptgen::ScriptGen::pick_fault(&cmds, &mut self.rng) } else { None };
        let text = sg.render(&cmds, fault);
        Some(Op::Script { text, cmds, fault_at: fault.map(|f| f.0) })
    }

    /// Directed prelude: k two-vertex groups alive at once (k up to 14), some holding unread data,
    /// so that copies are taken of graphs that use the last group slots.
    pub fn many_groups_prelude(&mut self, cap: usize) {
        let k = self.rng.range(12, 14).min(cap / 2);
        if k < 2 {
            return;
        }
        let l = self.label();
        for i in 0..k {
            let (a, b) = (2 * i, 2 * i + 1);
            self.prelude.push_back(Op::Add(a));
            self.prelude.push_back(Op::Add(b));
            self.prelude.push_back(Op::Bind(a, b, l));
            match self.rng.below(3) {
                0 => {}
                1 => self.prelude.push_back(Op::Put(b, gen_data(&mut self.rng, true))),
                _ => {
                    self.prelude.push_back(Op::Put(a, gen_data(&mut self.rng, true)));
                    self.prelude.push_back(Op::Put(b, gen_data(&mut self.rng, true)));
                }
            }
        }
    }

    /// Draw the next legal op.
    pub fn next_op(&mut self, m: &Model) -> Op {
        while let Some(op) = self.prelude.pop_front() {
            if m.legal(&op) {
                return op;
            }
        }
        let pop = m.verts.len();
        let mut w = self.w;
        // population control
        if pop < 2 {
            w.0[K_ADDF] += 200;
        } else if pop >= self.target_pop {
            w.0[K_ADDF] /= 8;
            w.0[K_DATA] += 20;
            w.0[K_PUT] += 10;
        }
        // too many groups alive: prefer put+read on grouped vertices so that groups die
        if m.live_groups() >= MAX_GROUPS - 2 && self.profile != Profile::Full {
            w.0[K_PUT] += 30;
            w.0[K_DATA] += 50;
        }
        if !self.allow_script {
            w.0[K_SCRIPT] = 0;
        }
        self.drawn += 1;
        if self.drawn <= self.allocator_ops_after {
            w.0[K_NEXT] = 0;
            w.0[K_MERGE] = 0;
            w.0[K_SCRIPT] = 0;
        }
        w.0[K_SAVE] += self.boost_save;
        w.0[K_CLONE] += self.boost_clone;
        for _ in 0..40 {
            let k = self.rng.weighted(&w.0);
            let op = match k {
                K_ADDF => self.pick_absent(m).map(Op::Add),
                K_ADDP => {
                    let ks = m.keys();
                    if ks.is_empty() {
                        None
                    } else {
                        let gr = Self::grouped(m);
                        if !gr.is_empty() && self.rng.chance(2, 3) {
                            Some(Op::Add(*self.rng.pick(&gr)))
                        } else {
                            Some(Op::Add(*self.rng.pick(&ks)))
                        }
                    }
                }
                K_BIND => self.gen_bind(m),
                K_PUT => self.gen_put(m),
                K_DATA => self.gen_data_op(m),
                K_KID => {
                    let ks = m.keys();
                    if ks.is_empty() {
                        None
                    } else {
                        let v = *self.rng.pick(&ks);
                        Some(Op::Kid(v, self.label()))
                    }
                }
                K_KIDS => {
                    let ks = m.keys();
                    if ks.is_empty() {
                        None
                    } else {
                        Some(Op::Kids(*self.rng.pick(&ks)))
                    }
                }
                K_NEXT => Some(Op::NextId),
                K_CLONE => Some(Op::Clone { swap: self.rng.chance(1, 2) }),
                K_SAVE => Some(Op::SaveLoad { swap: self.rng.chance(1, 2) }),
                K_SLICE => {
                    let ks: Vec<usize> = m.keys().into_iter().filter(|v| m.slice_legal(*v)).collect();
                    if ks.is_empty() {
                        None
                    } else {
                        Some(Op::Slice(*self.rng.pick(&ks)))
                    }
                }
                K_MERGE => self.gen_merge(m),
                K_SCRIPT => self.gen_script(m),
                K_EXPORT => Some(Op::Export),
                _ => None,
            };
            if let Some(op) = op {
                if m.legal(&op) {
                    return op;
                }
            }
        }
        // fallbacks that are always legal when possible
        if let Some(v) = m.absent_ids().first() {
            return Op::Add(*v);
        }
        let ks = m.keys();
        Op::Kids(ks[0])
    }

    /// Tell the generator what next_id() returned (so that it can add that id later).
    pub fn note_next_id(&mut self, id: usize) {
        self.pending.push(id);
    }
}

/// Pick a configuration (N, cap): weighted toward small N and small capacities.
pub fn pick_config(rng: &mut Rng) -> (usize, usize) {
    let n = *rng.pick(&[1usize, 1, 2, 2, 3, 3, 4, 4, 4, 5, 6, 7, 8, 8, 9, 10, 11, 12, 13, 14, 15, 16, 16, 16]);
    let cap = match rng.below(12) {
        0 => rng.range(2, 5),
        1..=6 => rng.range(6, 40),
        7..=8 => rng.range(41, 120),
        9 => rng.range(121, 255),
        10 => 256,
        // beyond the capacity every unit test uses
        _ => *rng.pick(&[257usize, 300, 512, 513, 600]),
    };
    (n, cap)
}

#[allow(dead_code)]
pub fn group_room(m: &Model, g: u64) -> usize {
    MAX_GROUP_SIZE - m.groups[&g].len()
}
