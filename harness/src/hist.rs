//! Generic history runner: generator → recorder → monitor, with the divergence rule,
//! probes and replay support (DESIGN.md §3.4–3.9).

use crate::gen::{Gen, Profile};
use crate::json::Counters;
use crate::model::Model;
use crate::ops::Op;
use crate::rec::{snap_hash, Outcome, Ret, Session};
use crate::rng::{Fnv, Rng};
use std::collections::BTreeSet;
use std::path::Path;

pub struct Ctx<'a> {
    pub c: &'a mut Counters,
    pub rng: &'a mut Rng,
    pub labels: Vec<sodg::Label>,
}

pub trait HistMonitor {
    /// Called before the op is executed (for before/after comparisons).
    fn before(&mut self, _s: &mut Session, _op: &Op, _ctx: &mut Ctx) {}
    /// Called after the op; returns a violation message if the property is refuted.
    fn after(&mut self, s: &mut Session, op: &Op, o: &mut Outcome, ctx: &mut Ctx) -> Option<String>;
    /// End-of-history probes.
    fn finish(&mut self, _s: &mut Session, _ctx: &mut Ctx) -> Option<String> {
        None
    }
    /// Whether this history counts as non-trivial for the property.
    fn nontrivial(&self, c: &HistStats) -> bool;
    /// Alive-set divergence from the model is this monitor's violation (C02/C06) or not (resync).
    fn owns_divergence(&self) -> bool {
        false
    }
    /// A panic of a legal call is this monitor's violation.
    fn owns_panic(&self, _op: &Op) -> bool {
        false
    }
    /// A panic of this read-only call leaves the graph as it was; the monitor looks at that state
    /// itself with guarded calls and names the call that panics (C18: to_xml/to_dot; C20: Debug,
    /// inspect, v_print), so the panic of the compound call is neither reported wholesale nor does
    /// it end the history.
    fn examines_panic_itself(&self, _op: &Op) -> bool {
        false
    }
    /// Structural mismatch while adopting a merge/script into the model is this monitor's violation.
    fn owns_adopt_error(&self) -> bool {
        false
    }
}

#[derive(Default, Clone, Debug)]
pub struct HistStats {
    pub calls: u64,
    pub collections: u64,
    pub collected: u64,
    pub noncollecting_reads: u64,
    pub groups_formed: u64,
    pub put_before_bind: u64,
    pub overwrite_unread: u64,
    pub add_present: u64,
    pub add_present_grouped: u64,
    pub add_collected: u64,
    pub label_overwrites: u64,
    pub data_overwrites: u64,
    pub repeated_reads: u64,
    pub next_ids: u64,
    pub merges: u64,
    pub slices: u64,
    pub scripts: u64,
    pub clones: u64,
    pub saveloads: u64,
    pub max_live_groups: u64,
    pub resyncs: u64,
    pub foreign_panics: u64,
}

pub struct HistCfg {
    pub n: usize,
    pub cap: usize,
    pub profile: Profile,
    pub len: usize,
    pub seed: u64,
}

pub struct HistResult {
    pub stats: HistStats,
    pub violation: Option<(String, usize)>, // message, index of the op
    pub ops: Vec<Op>,
    pub nontrivial: bool,
    pub ops_hash: u64,
    pub latent: Vec<String>,
    /// (model state hash, snapshot hash) after the last op, before the end-of-history probes.
    pub end_key: (u64, u64),
    /// Number of ops executed before the end-of-history probes started.
    pub main_len: usize,
}

pub fn ops_hash(cfg_n: usize, cfg_cap: usize, ops: &[Op]) -> u64 {
    let mut f = Fnv::new();
    f.write_u64(cfg_n as u64);
    f.write_u64(cfg_cap as u64);
    for o in ops {
        f.write_str(&o.text());
    }
    f.0
}

/// Update arm counters and stats from one executed op (model-side knowledge only).
pub fn account(op: &Op, o: &Outcome, pre: &PreState, st: &mut HistStats, c: &mut Counters) {
    st.calls += 1;
    c.inc(&format!("op.{}", op.kind()));
    match op {
        Op::Add(_) => {
            if pre.present {
                st.add_present += 1;
                if pre.grouped {
                    st.add_present_grouped += 1;
                    c.inc("add.present-grouped");
                } else {
                    c.inc("add.present-ungrouped");
                }
            } else if pre.in_graveyard {
                st.add_collected += 1;
                c.inc("add.collected-id");
            } else {
                c.inc("add.fresh");
            }
        }
        Op::Bind(..) => {
            if let Some(arm) = o.bind_arm {
                c.inc(&format!("bind.{arm:?}"));
                if arm == crate::model::BindArm::UU {
                    st.groups_formed += 1;
                }
                if pre.bind_joins_with_unread {
                    st.put_before_bind += 1;
                    c.inc("bind.joiner-holds-unread");
                }
            }
            if pre.label_overwrite {
                st.label_overwrites += 1;
                c.inc("bind.label-overwrite");
            }
            if pre.n > 0 && pre.labels_before == pre.n && pre.label_exists {
                c.inc(&format!("bind.rebind-on-full-vertex.N{}", pre.n));
            }
            if pre.n > 0 && pre.labels_before + 1 == pre.n && !pre.label_exists {
                c.inc(&format!("bind.fills-vertex-to-N.N{}", pre.n));
            }
            if pre.group_size_before == 15 && matches!(o.bind_arm, Some(crate::model::BindArm::UG | crate::model::BindArm::GU)) {
                c.inc("bind.fills-group-to-16");
            }
        }
        Op::Put(..) => {
            let s = match (pre.has_data, pre.unread) {
                (false, _) => "empty",
                (true, true) => "unread",
                (true, false) => "read",
            };
            c.inc(&format!("put.on-{s}.{}", if pre.grouped { "grouped" } else { "ungrouped" }));
            if pre.has_data {
                st.data_overwrites += 1;
            }
            if pre.has_data && pre.unread {
                st.overwrite_unread += 1;
            }
        }
        Op::Data(_) => {
            if !o.model_removed.is_empty() {
                st.collections += 1;
                st.collected += o.model_removed.len() as u64;
                c.inc(&format!("data.first-read-last.size{}", o.model_removed.len()));
            } else {
                st.noncollecting_reads += 1;
                match (pre.has_data, pre.unread, pre.grouped) {
                    (false, _, _) => c.inc("data.empty"),
                    (true, false, _) => {
                        st.repeated_reads += 1;
                        c.inc("data.repeat");
                    }
                    (true, true, true) => c.inc("data.first-read-not-last"),
                    (true, true, false) => c.inc("data.first-read-ungrouped"),
                }
            }
        }
        Op::NextId => st.next_ids += 1,
        Op::Merge { .. } => st.merges += 1,
        Op::Slice(_) => st.slices += 1,
        Op::Script { .. } => st.scripts += 1,
        Op::Clone { .. } => st.clones += 1,
        Op::SaveLoad { .. } => st.saveloads += 1,
        _ => {}
    }
    if o.panic.is_some() {
        c.inc("panics.caught");
    }
}

/// Model-side facts about the op's main vertex before the call (for arm counters).
#[derive(Default, Clone)]
pub struct PreState {
    pub present: bool,
    pub grouped: bool,
    pub in_graveyard: bool,
    pub has_data: bool,
    pub unread: bool,
    pub label_overwrite: bool,
    pub bind_joins_with_unread: bool,
    /// labels on the source vertex before a bind, and N
    pub labels_before: usize,
    pub n: usize,
    pub label_exists: bool,
    pub group_size_before: usize,
}

pub fn pre_state(m: &Model, op: &Op) -> PreState {
    let mut p = PreState::default();
    let v = match op {
        Op::Add(v) | Op::Put(v, _) | Op::Data(v) | Op::Bind(v, _, _) => *v,
        _ => return p,
    };
    p.in_graveyard = m.graveyard.contains(&v);
    if let Some(x) = m.verts.get(&v) {
        p.present = true;
        p.grouped = x.group.is_some();
        p.has_data = x.data.is_some();
        p.unread = x.unread;
    }
    if let Op::Bind(a, b, l) = op {
        if let (Some(x1), Some(x2)) = (m.verts.get(a), m.verts.get(b)) {
            p.label_overwrite = x1.edges.iter().any(|(k, t)| k == l && t != b);
            p.labels_before = x1.edges.len();
            p.n = m.n;
            p.label_exists = x1.edges.iter().any(|(k, _)| k == l);
            p.group_size_before = x1.group.or(x2.group).map_or(0, |g| m.groups[&g].len());
            let j1 = x1.group.is_none() && x1.data.is_some() && x1.unread;
            let j2 = x2.group.is_none() && x2.data.is_some() && x2.unread;
            p.bind_joins_with_unread = j1 || j2;
        }
    }
    p
}

pub struct Runner<'a> {
    pub c: &'a mut Counters,
    pub snaps: &'a mut BTreeSet<u64>,
    pub mstates: &'a mut BTreeSet<u64>,
    pub configs: &'a mut BTreeSet<(usize, usize)>,
    pub workdir: &'a Path,
    pub track_states: bool,
}

pub enum Source<'a> {
    Gen(&'a mut Gen, usize),
    Fixed(&'a [Op]),
    Churn(&'a mut crate::churn::ChurnGen, usize),
}

impl Runner<'_> {
    /// Run one history with a monitor. `src` yields the ops (generated against the model, or fixed
    /// for replay, in which case ops that the model says are illegal are skipped).
    pub fn run(
        &mut self,
        n: usize,
        cap: usize,
        seed: u64,
        mut src: Source,
        mon: &mut dyn HistMonitor,
        sink: Option<std::fs::File>,
    ) -> HistResult {
        let mut s = Session::new(n, cap, self.workdir);
        s.sink = sink;
        self.configs.insert((n, cap));
        let mut st = HistStats::default();
        let mut rng = Rng::new(seed ^ 0xABCD_EF01);
        let labels = match &src {
            Source::Gen(g, _) => g.labels.clone(),
            Source::Churn(g, _) => g.labels.clone(),
            Source::Fixed(ops) => labels_of(ops),
        };
        let mut violation: Option<(String, usize)> = None;
        let mut latent: Vec<String> = vec![];
        let mut i = 0usize;
        loop {
            let op = match &mut src {
                Source::Gen(g, len) => {
                    if i >= *len {
                        break;
                    }
                    g.next_op(&s.m)
                }
                Source::Churn(g, len) => {
                    if i >= *len {
                        break;
                    }
                    match g.next_op(&s.m) {
                        Some(op) => op,
                        None => break,
                    }
                }
                Source::Fixed(ops) => {
                    if i >= ops.len() {
                        break;
                    }
                    let op = ops[i].clone();
                    if !s.m.legal(&op) {
                        i += 1;
                        continue;
                    }
                    op
                }
            };
            i += 1;
            let pre = pre_state(&s.m, &op);
            let mut ctx = Ctx { c: self.c, rng: &mut rng, labels: labels.clone() };
            mon.before(&mut s, &op, &mut ctx);
            let mut o = s.step(&op);
            account(&op, &o, &pre, &mut st, self.c);
            if let (Op::NextId, Ret::Id(id)) = (&op, &o.ret) {
                match &mut src {
                    Source::Gen(g, _) => g.note_next_id(*id),
                    Source::Churn(g, _) => g.note_next_id(*id),
                    Source::Fixed(_) => {}
                }
            }
            st.max_live_groups = st.max_live_groups.max(s.m.live_groups() as u64);
            let at = s.ops.len() - 1;
            // 1. panic of a legal call
            if let Some(p) = &o.panic {
                if mon.owns_panic(&op) {
                    violation = Some((format!("legal call {} panicked: {p}", op.show()), at));
                    break;
                } else if mon.examines_panic_itself(&op) {
                    self.c.inc("history.read-only-compound-call-panicked(examined-by-the-monitor)");
                } else {
                    st.foreign_panics += 1;
                    self.c.inc("history.cut-by-foreign-panic");
                    break;
                }
            }
            // 2. the monitor's own judgement
            let mut ctx = Ctx { c: self.c, rng: &mut rng, labels: labels.clone() };
            if let Some(msg) = mon.after(&mut s, &op, &mut o, &mut ctx) {
                violation = Some((msg, at));
                break;
            }
            // 3. divergence rule
            let agrees = s.g.keys() == s.m.keys();
            if !agrees || o.adopt_error.is_some() {
                if !agrees && mon.owns_divergence() {
                    let msg = format!(
                        "after {}: alive set {:?}, reference model {:?}",
                        op.show(),
                        s.g.keys(),
                        s.m.keys()
                    );
                    violation = Some((msg, at));
                    break;
                }
                if o.adopt_error.is_some() && mon.owns_adopt_error() {
                    violation = Some((format!("after {}: {}", op.show(), o.adopt_error.clone().unwrap()), at));
                    break;
                }
                let snap = s.g.snapshot();
                s.m.resync(&snap);
                st.resyncs += 1;
                self.c.inc("resyncs");
            }
            if self.track_states {
                let snap = s.g.snapshot();
                self.snaps.insert(snap_hash(&snap));
                self.mstates.insert(s.m.state_hash());
                let an = crate::rec::snap_anomalies(&snap);
                if !an.is_empty() && latent.is_empty() {
                    latent = an;
                    self.c.inc("latent.anomaly-seen");
                    // switch to the probe suffix right away (DESIGN.md §3.3 item 2) in one history out
                    // of two; the other half goes on, because some defects need further puts and binds
                    // of the history proper before they become observable (seeded change C01-B)
                    if rng.chance(1, 2) {
                        break;
                    }
                }
            }
        }
        let end_key = (s.m.state_hash(), snap_hash(&s.g.snapshot()));
        let main_len = s.ops.len();
        // after a panic that is not this monitor's business the graph (and any twin that did not get
        // the interrupted call) is in no defined state: no end-of-history probes
        if violation.is_none() && st.foreign_panics == 0 {
            let mut ctx = Ctx { c: self.c, rng: &mut rng, labels: labels.clone() };
            if let Some(msg) = mon.finish(&mut s, &mut ctx) {
                violation = Some((msg, s.ops.len().saturating_sub(1)));
            } else if !latent.is_empty() {
                self.c.inc("latent.unconfirmed");
            }
        }
        if violation.is_some() && !latent.is_empty() {
            self.c.inc("latent.confirmed");
        }
        st.calls = s.calls;
        let nontrivial = mon.nontrivial(&st);
        let ops = std::mem::take(&mut s.ops);
        let h = ops_hash(n, cap, &ops);
        HistResult { stats: st, violation, ops, nontrivial, ops_hash: h, latent, end_key, main_len }
    }
}

pub fn labels_of(ops: &[Op]) -> Vec<sodg::Label> {
    let mut out = vec![];
    fn walk(ops: &[Op], out: &mut Vec<sodg::Label>) {
        for o in ops {
            match o {
                Op::Bind(_, _, l) | Op::Kid(_, l) => {
                    if !out.contains(l) {
                        out.push(*l);
                    }
                }
                Op::Merge { h, .. } => walk(h, out),
                _ => {}
            }
        }
    }
    walk(ops, &mut out);
    out
}

/// Drain probe: read every unread datum in random order, then read everything once more.
/// `f` judges each step; returns the first violation.
pub fn drain(
    s: &mut Session,
    rng: &mut Rng,
    c: &mut Counters,
    st_collect: &mut u64,
    f: &mut dyn FnMut(&mut Session, &Op, &mut Outcome) -> Option<String>,
) -> Option<String> {
    for round in 0..2 {
        let mut vs: Vec<usize> = if round == 0 {
            s.m.verts.iter().filter(|(_, x)| x.data.is_some() && x.unread).map(|(v, _)| *v).collect()
        } else {
            s.m.keys()
        };
        rng.shuffle(&mut vs);
        for v in vs {
            if !s.m.present(v) || !s.g.keys().contains(&v) {
                continue;
            }
            let op = Op::Data(v);
            let mut o = s.step(&op);
            c.inc("probe.drain-reads");
            if !o.model_removed.is_empty() {
                *st_collect += 1;
            }
            if let Some(m) = f(s, &op, &mut o) {
                return Some(m);
            }
            if o.panic.is_some() {
                c.inc("probe.drain-cut-by-panic");
                return None;
            }
        }
    }
    None
}
