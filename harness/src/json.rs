//! Minimal JSON emitter (the driver, in Python, does all parsing).

use std::collections::BTreeMap;
use std::fmt::Write;

#[derive(Clone, Debug)]
pub enum J {
    Null,
    Bool(bool),
    Int(i128),
    Num(f64),
    Str(String),
    Arr(Vec<J>),
    Obj(BTreeMap<String, J>),
}

impl J {
    pub fn obj() -> J {
        J::Obj(BTreeMap::new())
    }
    pub fn s(x: &str) -> J {
        J::Str(x.to_string())
    }
    pub fn i(x: usize) -> J {
        J::Int(x as i128)
    }
    pub fn set(&mut self, k: &str, v: J) -> &mut Self {
        if let J::Obj(m) = self {
            m.insert(k.to_string(), v);
        }
        self
    }
    pub fn with(mut self, k: &str, v: J) -> Self {
        self.set(k, v);
        self
    }
    pub fn render(&self) -> String {
        let mut out = String::new();
        self.write(&mut out);
        out
    }
    fn write(&self, out: &mut String) {
        match self {
            J::Null => out.push_str("null"),
            J::Bool(b) => out.push_str(if *b { "true" } else { "false" }),
            J::Int(i) => {
                let _ = write!(out, "{i}");
            }
            J::Num(f) => {
                if f.is_finite() {
                    let _ = write!(out, "{f}");
                } else {
                    out.push_str("null");
                }
            }
            J::Str(s) => esc(s, out),
            J::Arr(a) => {
                out.push('[');
                for (i, x) in a.iter().enumerate() {
                    if i > 0 {
                        out.push(',');
                    }
                    x.write(out);
                }
                out.push(']');
            }
            J::Obj(m) => {
                out.push('{');
                for (i, (k, v)) in m.iter().enumerate() {
                    if i > 0 {
                        out.push(',');
                    }
                    esc(k, out);
                    out.push(':');
                    v.write(out);
                }
                out.push('}');
            }
        }
    }
}

fn esc(s: &str, out: &mut String) {
    out.push('"');
    for c in s.chars() {
        match c {
            '"' => out.push_str("\\\""),
            '\\' => out.push_str("\\\\"),
            '\n' => out.push_str("\\n"),
            '\r' => out.push_str("\\r"),
            '\t' => out.push_str("\\t"),
            c if (c as u32) < 0x20 => {
                let _ = write!(out, "\\u{:04x}", c as u32);
            }
            c => out.push(c),
        }
    }
    out.push('"');
}

/// Counter map that renders to a JSON object.
#[derive(Default, Clone)]
pub struct Counters(pub BTreeMap<String, u64>);
impl Counters {
    pub fn inc(&mut self, k: &str) {
        self.add(k, 1);
    }
    pub fn add(&mut self, k: &str, n: u64) {
        if let Some(v) = self.0.get_mut(k) {
            *v += n;
        } else {
            self.0.insert(k.to_string(), n);
        }
    }
    pub fn max(&mut self, k: &str, n: u64) {
        let e = self.0.entry(k.to_string()).or_insert(0);
        if n > *e {
            *e = n;
        }
    }
    pub fn get(&self, k: &str) -> u64 {
        self.0.get(k).copied().unwrap_or(0)
    }
    pub fn to_json(&self) -> J {
        J::Obj(self.0.iter().map(|(k, v)| (k.clone(), J::Int(i128::from(*v)))).collect())
    }
}
