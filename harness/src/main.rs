//! sodg-monitor: runtime monitors for objectionary/sodg (see /verif/DESIGN.md).

mod churn;
mod gen;
mod hist;
mod json;
mod model;
mod mon_gc;
mod mon_slice;
mod mon_text;
mod mon_twin;
mod ops;
mod props_det;
mod props_hist;
mod props_merge;
mod props_script;
mod props_io;
mod props_mem;
mod props_pure;
mod rec;
mod rng;
mod scriptgen;
mod shard;
mod shim;

use shard::{ShardCfg, ShardOut};
use std::path::PathBuf;

/// A logger that formats every record (which is what evaluates the arguments of sodg's `trace!`/`debug!` calls) and
/// keeps nothing. Installed in the odd-numbered shards: the answers of the graph must not depend on whether the
/// application has logging switched on, and the code inside the log statements is run under the monitors as well.
struct Sink;
static LOGGED: std::sync::atomic::AtomicU64 = std::sync::atomic::AtomicU64::new(0);
impl log::Log for Sink {
    fn enabled(&self, _: &log::Metadata) -> bool {
        true
    }
    fn log(&self, r: &log::Record) {
        use std::fmt::Write;
        struct Null(usize);
        impl Write for Null {
            fn write_str(&mut self, s: &str) -> std::fmt::Result {
                self.0 += s.len();
                Ok(())
            }
        }
        let mut n = Null(0);
        let _ = write!(n, "{}", r.args());
        LOGGED.fetch_add(1, std::sync::atomic::Ordering::Relaxed);
    }
    fn flush(&self) {}
}
static SINK: Sink = Sink;

fn arg(args: &[String], name: &str) -> Option<String> {
    args.iter().position(|a| a == name).and_then(|i| args.get(i + 1).cloned())
}

fn main() {
    let args: Vec<String> = std::env::args().collect();
    rec::install_panic_hook();
    let cmd = args.get(1).map(String::as_str).unwrap_or("");
    match cmd {
        "run" => {
            let cfg = ShardCfg {
                prop: arg(&args, "--prop").expect("--prop"),
                seed: arg(&args, "--seed").and_then(|s| s.parse().ok()).unwrap_or(1),
                shard: arg(&args, "--shard").and_then(|s| s.parse().ok()).unwrap_or(0),
                shards: arg(&args, "--shards").and_then(|s| s.parse().ok()).unwrap_or(1),
                count: arg(&args, "--count").and_then(|s| s.parse().ok()).unwrap_or(100),
                thorough: arg(&args, "--tier").is_some_and(|t| t == "thorough"),
                work: PathBuf::from(arg(&args, "--work").unwrap_or_else(|| ".".into())),
                replays: PathBuf::from(arg(&args, "--replays").unwrap_or_else(|| ".".into())),
                budget_s: arg(&args, "--budget").and_then(|s| s.parse().ok()).unwrap_or(1e9),
                mode: arg(&args, "--mode").unwrap_or_default(),
            };
            let _ = std::fs::create_dir_all(&cfg.work);
            let mut out = ShardOut::new();
            if cfg.shard % 2 == 1 && log::set_logger(&SINK).is_ok() {
                log::set_max_level(log::LevelFilter::Trace);
            }
            match cfg.prop.as_str() {
                "C01" | "C02" | "C03" | "C04" | "C05" | "C06" | "C08" | "C10" | "C13" | "C18" | "C20" => {
                    props_hist::run_shard(&cfg, &mut out)
                }
                "C07" => props_mem::run_c07(&cfg, &mut out),
                "C09" => props_io::run_c09(&cfg, &mut out),
                "C11" => props_merge::run_c11(&cfg, &mut out),
                "C12" => props_merge::run_c12(&cfg, &mut out),
                "C14" => props_script::run_c14(&cfg, &mut out),
                "C19" => props_det::run_c19(&cfg, &mut out),
                "C15" => props_pure::run_c15(&cfg, &mut out),
                "C16" => props_pure::run_c16(&cfg, &mut out),
                "C17" => props_pure::run_c17(&cfg, &mut out),
                p => {
                    eprintln!("unknown property {p}");
                    std::process::exit(3);
                }
            }
            let logged = LOGGED.load(std::sync::atomic::Ordering::Relaxed);
            if logged > 0 {
                out.counters.add("log.records-formatted(trace level switched on in odd shards)", logged);
            }
            let js = out.to_json(&cfg).render();
            match arg(&args, "--out") {
                Some(p) => std::fs::write(p, js).expect("write out"),
                None => println!("{js}"),
            }
        }
        "canary" => {
            std::process::exit(props_mem::canary(args.get(2).map(String::as_str).unwrap_or("")));
        }
        "trace" => {
            let file = PathBuf::from(args.get(2).expect("trace <file> <workdir>"));
            let work = PathBuf::from(args.get(3).expect("trace <file> <workdir>"));
            std::process::exit(props_det::trace_main(&file, &work));
        }
        "replay" => {
            let path = PathBuf::from(args.get(2).expect("replay <file>"));
            let rp = match shard::read_replay(&path) {
                Ok(r) => r,
                Err(e) => {
                    eprintln!("cannot read replay: {e}");
                    std::process::exit(3);
                }
            };
            let work = std::env::temp_dir();
            let hit = match rp.prop.as_str() {
                "C01" | "C02" | "C03" | "C04" | "C05" | "C06" | "C08" | "C10" | "C13" | "C18" | "C20" => {
                    props_hist::replay(&rp, &work)
                }
                "C07" => props_mem::replay(&rp, &work),
                "C09" => props_io::replay(&rp),
                "C11" | "C12" => props_merge::replay(&rp, &work),
                "C14" => props_script::replay(&rp, &work),
                "C19" => props_det::replay(&rp, &work),
                "C15" | "C16" | "C17" => props_pure::replay(&rp),
                p => {
                    eprintln!("no replay for {p}");
                    std::process::exit(3);
                }
            };
            std::process::exit(i32::from(hit));
        }
        _ => {
            eprintln!("usage: sodg-monitor run --prop Cxx --seed S --shard i --shards n --count K [--tier thorough] --work DIR --replays DIR --out FILE | replay FILE");
            std::process::exit(3);
        }
    }
}
