//! Executable reference model of the documented semantics of `Sodg` (see DESIGN.md §3.5).
//! It knows nothing about slots, counters or tags: vertices are a map, groups are lists,
//! a group dies when a first read leaves none of its members with an unread datum (recount).

use crate::ops::{Cmd, Ident, Op};
use crate::shim::Graph;
use sodg::{Label, VerifSnapshot};
use std::collections::{BTreeMap, BTreeSet};

pub const MAX_GROUPS: usize = 14;
pub const MAX_GROUP_SIZE: usize = 16;

#[derive(Clone, Debug, Default, PartialEq, Eq, Hash)]
pub struct MV {
    pub edges: Vec<(Label, usize)>,
    pub data: Option<Vec<u8>>,
    pub unread: bool,
    pub group: Option<u64>,
    pub ever_bound: bool,
    pub inc: u32,
}

/// A primitive event (what merge / script / slice stand for), fed to the trace monitors.
#[derive(Clone, Debug, PartialEq)]
pub enum Prim {
    Add(usize),
    Bind(usize, usize, Label),
    Put(usize, Vec<u8>),
    NextId(usize),
}

#[derive(Clone, Copy, Debug, PartialEq, Eq)]
pub enum BindArm {
    UU,
    UG,
    GU,
    GGSame,
    GGOther,
}

#[derive(Clone, Debug)]
pub struct Model {
    pub n: usize,
    pub cap: usize,
    pub verts: BTreeMap<usize, MV>,
    pub groups: BTreeMap<u64, Vec<usize>>,
    next_gid: u64,
    /// Allocator position.
    pub pos: usize,
    /// Ids returned by next_id() in this lineage (original + clones; reset by load).
    pub returned: BTreeSet<usize>,
    incs: BTreeMap<usize, u32>,
    /// Ids whose vertex was collected and that have not been re-added since.
    pub graveyard: BTreeSet<usize>,
    pub groups_formed: u64,
    pub groups_died: u64,
}

impl Model {
    pub fn new(n: usize, cap: usize) -> Self {
        Self {
            n,
            cap,
            verts: BTreeMap::new(),
            groups: BTreeMap::new(),
            next_gid: 1,
            pos: 0,
            returned: BTreeSet::new(),
            incs: BTreeMap::new(),
            graveyard: BTreeSet::new(),
            groups_formed: 0,
            groups_died: 0,
        }
    }

    pub fn present(&self, v: usize) -> bool {
        self.verts.contains_key(&v)
    }
    pub fn keys(&self) -> Vec<usize> {
        self.verts.keys().copied().collect()
    }
    pub fn live_groups(&self) -> usize {
        self.groups.len()
    }
    pub fn kid(&self, v: usize, a: Label) -> Option<usize> {
        self.verts.get(&v)?.edges.iter().find(|(l, _)| *l == a).map(|(_, t)| *t)
    }
    pub fn group_of(&self, v: usize) -> Option<u64> {
        self.verts.get(&v)?.group
    }
    pub fn group_unread(&self, g: u64) -> usize {
        self.groups.get(&g).map_or(0, |ms| {
            ms.iter().filter(|m| self.verts.get(m).is_some_and(|x| x.data.is_some() && x.unread)).count()
        })
    }
    pub fn absent_ids(&self) -> Vec<usize> {
        (0..self.cap).filter(|v| !self.present(*v)).collect()
    }

    // ---------------------------------------------------------------- primitive semantics

    pub fn add(&mut self, v: usize) -> bool {
        if self.present(v) {
            return false;
        }
        let inc = self.incs.entry(v).or_insert(0);
        *inc += 1;
        self.verts.insert(v, MV { inc: *inc, ..MV::default() });
        self.graveyard.remove(&v);
        true
    }

    pub fn bind(&mut self, v1: usize, v2: usize, a: Label) -> BindArm {
        {
            let x = self.verts.get_mut(&v1).expect("model: bind on absent v1");
            if let Some(e) = x.edges.iter_mut().find(|(l, _)| *l == a) {
                e.1 = v2;
            } else {
                x.edges.push((a, v2));
            }
            x.ever_bound = true;
        }
        self.verts.get_mut(&v2).expect("model: bind on absent v2").ever_bound = true;
        let g1 = self.verts[&v1].group;
        let g2 = self.verts[&v2].group;
        match (g1, g2) {
            (None, None) => {
                let gid = self.next_gid;
                self.next_gid += 1;
                self.groups.insert(gid, vec![v1, v2]);
                self.verts.get_mut(&v1).unwrap().group = Some(gid);
                self.verts.get_mut(&v2).unwrap().group = Some(gid);
                self.groups_formed += 1;
                BindArm::UU
            }
            (None, Some(g)) => {
                self.groups.get_mut(&g).unwrap().push(v1);
                self.verts.get_mut(&v1).unwrap().group = Some(g);
                BindArm::UG
            }
            (Some(g), None) => {
                self.groups.get_mut(&g).unwrap().push(v2);
                self.verts.get_mut(&v2).unwrap().group = Some(g);
                BindArm::GU
            }
            (Some(a), Some(b)) => {
                if a == b {
                    BindArm::GGSame
                } else {
                    BindArm::GGOther
                }
            }
        }
    }

    pub fn put(&mut self, v: usize, d: &[u8]) {
        let x = self.verts.get_mut(&v).expect("model: put on absent");
        x.data = Some(d.to_vec());
        x.unread = true;
    }

    /// Returns the bytes and the list of vertices removed by this read.
    pub fn data(&mut self, v: usize) -> (Option<Vec<u8>>, Vec<usize>) {
        let x = self.verts.get_mut(&v).expect("model: data on absent");
        let Some(d) = x.data.clone() else {
            return (None, vec![]);
        };
        if !x.unread {
            return (Some(d), vec![]);
        }
        x.unread = false;
        let mut removed = vec![];
        if let Some(g) = x.group {
            if self.group_unread(g) == 0 {
                removed = self.groups.remove(&g).unwrap();
                for m in &removed {
                    self.verts.remove(m);
                    self.graveyard.insert(*m);
                }
                self.groups_died += 1;
            }
        }
        (Some(d), removed)
    }

    /// The documented allocator policy: first absent id at or above the position.
    pub fn peek_next_id(&self) -> Option<usize> {
        (self.pos..self.cap).find(|v| !self.present(*v))
    }
    pub fn next_id(&mut self) -> Option<usize> {
        let id = self.peek_next_id()?;
        self.adopt_next_id(id);
        Some(id)
    }
    /// Record an id handed out by the allocator (predicted or observed).
    pub fn adopt_next_id(&mut self, id: usize) {
        if id + 1 > self.pos {
            self.pos = id + 1;
        }
        self.returned.insert(id);
    }
    /// The history goes on with the reloaded image. Where its allocator stands is a fact read from
    /// the hook: the statement of C08 permits a restart from the lowest absent id (what the pinned
    /// tree does: position 0) and equally carrying on like the original.
    pub fn after_reload(&mut self, observed_pos: usize) {
        if observed_pos < self.pos {
            self.returned.clear();
        }
        self.pos = observed_pos;
    }

    // ---------------------------------------------------------------- legality

    pub fn legal_bind(&self, v1: usize, v2: usize, a: Label) -> bool {
        if v1 == v2 || v1 >= self.cap || v2 >= self.cap {
            return false;
        }
        let (Some(x1), Some(x2)) = (self.verts.get(&v1), self.verts.get(&v2)) else {
            return false;
        };
        if !x1.edges.iter().any(|(l, _)| *l == a) && x1.edges.len() >= self.n {
            return false;
        }
        match (x1.group, x2.group) {
            (None, None) => self.live_groups() < MAX_GROUPS,
            (None, Some(g)) | (Some(g), None) => self.groups[&g].len() < MAX_GROUP_SIZE,
            _ => true,
        }
    }

    /// Is this op within the limits and preconditions (given the model state)?
    pub fn legal(&self, op: &Op) -> bool {
        match op {
            Op::Add(v) => *v < self.cap,
            Op::Bind(a, b, l) => self.legal_bind(*a, *b, *l),
            Op::Put(v, _) | Op::Data(v) | Op::Kid(v, _) | Op::Kids(v) => self.present(*v),
            Op::NextId => self.peek_next_id().is_some(),
            Op::Clone { .. } | Op::SaveLoad { .. } | Op::Export => true,
            Op::Slice(v) => self.slice_legal(*v),
            Op::Merge { h, left, right } => {
                let Some(hm) = Model::build(self.n, crate::ops::h_capacity(self.cap, h), h) else { return false };
                self.plan_merge(&hm, *left, *right).is_some()
            }
            Op::Script { cmds, .. } => {
                let mut sim = self.clone();
                sim.apply_script(cmds).is_some()
            }
        }
    }

    /// Closure of v over edges; legal for slice if all reachable are present and <= 14.
    pub fn reach(&self, v: usize) -> Option<BTreeSet<usize>> {
        let mut seen = BTreeSet::new();
        let mut todo = vec![v];
        while let Some(x) = todo.pop() {
            if !seen.insert(x) {
                continue;
            }
            let vx = self.verts.get(&x)?;
            for (_, t) in &vx.edges {
                if !seen.contains(t) {
                    todo.push(*t);
                }
            }
        }
        Some(seen)
    }
    pub fn slice_legal(&self, v: usize) -> bool {
        self.reach(v).is_some_and(|r| r.len() <= 14)
    }

    /// Build a model by applying primitive ops (Add/Bind/Put) from scratch; None if illegal.
    pub fn build(n: usize, cap: usize, ops: &[Op]) -> Option<Model> {
        let mut m = Model::new(n, cap);
        for op in ops {
            if !m.legal(op) {
                return None;
            }
            match op {
                Op::Add(v) => {
                    m.add(*v);
                }
                Op::Bind(a, b, l) => {
                    m.bind(*a, *b, *l);
                }
                Op::Put(v, d) => m.put(*v, &d.bytes()),
                Op::Data(v) => {
                    m.data(*v);
                }
                _ => return None,
            }
        }
        Some(m)
    }

    // ---------------------------------------------------------------- merge

    /// Canonical expansion of a tree merge on a copy of the model; None if the merge is outside
    /// the quantifier (h not a tree of present vertices reachable from `right`, the part of g
    /// walked from `left` not injective/present, or a limit would be exceeded).
    pub fn plan_merge(&self, h: &Model, left: usize, right: usize) -> Option<Model> {
        if !self.present(left) || !h.present(right) {
            return None;
        }
        let mut sim = self.clone();
        let mut seen_g = BTreeSet::new();
        let mut seen_h = BTreeSet::new();
        let mut evs = vec![];
        if !plan_rec(&mut sim, h, left, right, &mut seen_g, &mut seen_h, &mut evs) {
            return None;
        }
        if seen_h.len() != h.verts.len() {
            return None; // not everything reachable from right: C12's business
        }
        Some(sim)
    }

    /// The primitive calls a tree merge stands for in the canonical order (depth-first, the right
    /// tree's edge order, ids by the documented allocator policy). Used only as the as-if
    /// reference when the walk over the real result could not attribute the additions.
    pub fn canonical_merge_events(&self, h: &Model, left: usize, right: usize) -> Option<Vec<Prim>> {
        let mut sim = self.clone();
        let (mut sg, mut sh, mut evs) = (BTreeSet::new(), BTreeSet::new(), vec![]);
        if plan_rec(&mut sim, h, left, right, &mut sg, &mut sh, &mut evs) {
            Some(evs)
        } else {
            None
        }
    }

    /// Apply a merge to the model taking the ids of new vertices from the real graph `g`
    /// (after the call). Returns the primitive events, or Err describing a structural mismatch.
    pub fn apply_merge_observed(
        &mut self,
        h: &Model,
        left: usize,
        right: usize,
        g: &dyn Graph,
    ) -> Result<Vec<Prim>, String> {
        let mut evs = vec![];
        let mut seen_h = BTreeSet::new();
        self.obs_rec(h, left, right, g, &mut evs, &mut seen_h)?;
        Ok(evs)
    }

    fn obs_rec(
        &mut self,
        h: &Model,
        l: usize,
        r: usize,
        g: &dyn Graph,
        evs: &mut Vec<Prim>,
        seen_h: &mut BTreeSet<usize>,
    ) -> Result<(), String> {
        if !seen_h.insert(r) {
            return Ok(());
        }
        let hv = &h.verts[&r];
        if let Some(d) = &hv.data {
            self.put(l, d);
            evs.push(Prim::Put(l, d.clone()));
        }
        for (a, to) in &hv.edges {
            let t = if let Some(t) = self.kid(l, *a) {
                t
            } else {
                let Some(id) = g.kid(l, *a) else {
                    return Err(format!("after merge, ν{l} has no edge {a} demanded by the right graph"));
                };
                if self.present(id) {
                    return Err(format!(
                        "merge attached the already present ν{id} under ν{l}.{a} instead of a new vertex"
                    ));
                }
                if id >= self.cap {
                    return Err(format!("merge created ν{id} beyond the capacity"));
                }
                self.adopt_next_id(id);
                evs.push(Prim::NextId(id));
                self.add(id);
                evs.push(Prim::Add(id));
                self.bind(l, id, *a);
                evs.push(Prim::Bind(l, id, *a));
                id
            };
            self.obs_rec(h, t, *to, g, evs, seen_h)?;
        }
        Ok(())
    }

    // ---------------------------------------------------------------- script

    /// Apply script commands as the direct calls they stand for (variables: one next_id() at
    /// first evaluation). Returns primitive events; None if some call is illegal.
    pub fn apply_script(&mut self, cmds: &[Cmd]) -> Option<Vec<Prim>> {
        let mut vars: BTreeMap<String, usize> = BTreeMap::new();
        let mut evs = vec![];
        for c in cmds {
            match c {
                Cmd::Add(i) => {
                    let v = self.resolve(i, &mut vars, &mut evs)?;
                    if v >= self.cap {
                        return None;
                    }
                    self.add(v);
                    evs.push(Prim::Add(v));
                }
                Cmd::Bind(a, b, l) => {
                    let v1 = self.resolve(a, &mut vars, &mut evs)?;
                    let v2 = self.resolve(b, &mut vars, &mut evs)?;
                    let lab = crate::ops::spec_label(l)?;
                    if !self.legal_bind(v1, v2, lab) {
                        return None;
                    }
                    self.bind(v1, v2, lab);
                    evs.push(Prim::Bind(v1, v2, lab));
                }
                Cmd::Put(i, d) => {
                    let v = self.resolve(i, &mut vars, &mut evs)?;
                    if !self.present(v) {
                        return None;
                    }
                    self.put(v, d);
                    evs.push(Prim::Put(v, d.clone()));
                }
            }
        }
        Some(evs)
    }

    fn resolve(
        &mut self,
        i: &Ident,
        vars: &mut BTreeMap<String, usize>,
        evs: &mut Vec<Prim>,
    ) -> Option<usize> {
        match i {
            Ident::Lit(v) => Some(*v),
            Ident::Var(name) => {
                if let Some(v) = vars.get(name) {
                    return Some(*v);
                }
                let id = self.next_id()?;
                evs.push(Prim::NextId(id));
                vars.insert(name.clone(), id);
                Some(id)
            }
        }
    }

    // ---------------------------------------------------------------- slice

    /// The model of `slice(v)` with predicate `p`: kept set = closure over accepted edges.
    pub fn slice_closure(&self, v: usize, p: &dyn Fn(usize, usize, Label) -> bool) -> BTreeSet<usize> {
        let mut seen = BTreeSet::new();
        seen.insert(v);
        let mut todo = vec![v];
        while let Some(x) = todo.pop() {
            if let Some(vx) = self.verts.get(&x) {
                for (a, t) in &vx.edges {
                    if !seen.contains(t) && p(x, *t, *a) {
                        seen.insert(*t);
                        todo.push(*t);
                    }
                }
            }
        }
        seen
    }

    // ---------------------------------------------------------------- resync

    /// Adopt the real state wholesale (used by monitors whose property is not the one that
    /// diverged, so that they keep getting legal executions; DESIGN.md §3.5 divergence rule).
    pub fn resync(&mut self, s: &VerifSnapshot) {
        let old = std::mem::take(&mut self.verts);
        self.groups.clear();
        for slot in &s.slots {
            if slot.branch == 0 {
                if old.contains_key(&slot.id) {
                    self.graveyard.insert(slot.id);
                }
                continue;
            }
            let prev = old.get(&slot.id);
            let inc = match prev {
                Some(p) => p.inc,
                None => {
                    let i = self.incs.entry(slot.id).or_insert(0);
                    *i += 1;
                    *i
                }
            };
            self.graveyard.remove(&slot.id);
            self.verts.insert(
                slot.id,
                MV {
                    edges: slot.edges.clone(),
                    data: if slot.persistence == 0 { None } else { Some(slot.data.clone()) },
                    unread: slot.persistence == 1,
                    group: None,
                    ever_bound: prev.is_some_and(|p| p.ever_bound) || slot.branch >= 2,
                    inc,
                },
            );
        }
        for (b, ms) in &s.members {
            if *b < 2 {
                continue;
            }
            let live: Vec<usize> = ms
                .iter()
                .copied()
                .filter(|m| s.slots.iter().any(|x| x.id == *m && x.branch == *b))
                .collect();
            if live.is_empty() {
                continue;
            }
            let gid = self.next_gid;
            self.next_gid += 1;
            for m in &live {
                if let Some(x) = self.verts.get_mut(m) {
                    x.group = Some(gid);
                }
            }
            self.groups.insert(gid, live);
        }
        self.pos = s.next_v;
    }

    /// Hash of the abstract state (for "distinct model states" in the evidence).
    pub fn state_hash(&self) -> u64 {
        use crate::rng::Fnv;
        let mut f = Fnv::new();
        for (v, x) in &self.verts {
            f.write_u64(*v as u64);
            for (l, t) in &x.edges {
                f.write_str(&crate::ops::label_text(l));
                f.write_u64(*t as u64);
            }
            if let Some(d) = &x.data {
                f.write(d);
                f.write(&[1, u8::from(x.unread)]);
            }
            f.write_u64(x.group.map_or(0, |g| {
                // canonical group name = its first member
                self.groups[&g][0] as u64 + 1
            }));
        }
        f.write_u64(self.pos as u64);
        f.0
    }
}

fn plan_rec(
    sim: &mut Model,
    h: &Model,
    l: usize,
    r: usize,
    seen_g: &mut BTreeSet<usize>,
    seen_h: &mut BTreeSet<usize>,
    evs: &mut Vec<Prim>,
) -> bool {
    if !sim.present(l) || !seen_g.insert(l) || !seen_h.insert(r) {
        return false;
    }
    let hv = &h.verts[&r];
    if let Some(d) = &hv.data {
        sim.put(l, d);
        evs.push(Prim::Put(l, d.clone()));
    }
    for (a, to) in &hv.edges {
        if !h.present(*to) {
            return false;
        }
        let t = if let Some(t) = sim.kid(l, *a) {
            t
        } else {
            let Some(id) = sim.next_id() else { return false };
            evs.push(Prim::NextId(id));
            sim.add(id);
            evs.push(Prim::Add(id));
            if !sim.legal_bind(l, id, *a) {
                return false;
            }
            sim.bind(l, id, *a);
            evs.push(Prim::Bind(l, id, *a));
            id
        };
        if !plan_rec(sim, h, t, *to, seen_g, seen_h, evs) {
            return false;
        }
    }
    true
}
