//! Monitors for the garbage-collection and basic-operation properties C01–C06.

use crate::hist::{drain, Ctx, HistMonitor, HistStats};
use crate::model::Prim;
use crate::ops::{label_text, Op};
use crate::rec::{digest, first_diff, guarded, Outcome, Ret, Session, O_EDGES, O_INSPECT, O_KEYS, O_TEXT};
use crate::shim::{new_graph, Graph};
use std::collections::{BTreeMap, BTreeSet};

// ------------------------------------------------------------------------------------ C01

/// Online trace monitor, model-free: keeps only what the call log and keys() say.
#[derive(Default)]
pub struct C01 {
    present: BTreeSet<usize>,
    inc: BTreeMap<usize, u32>,
    unread: BTreeMap<usize, bool>,
    ever_bound: BTreeSet<(usize, u32)>,
    uf: BTreeMap<(usize, u32), (usize, u32)>,
    pub saw_collection: bool,
    pub saw_safe_read: bool,
    /// Set when a compound call could not be attributed to primitive events (its structure did
    /// not match what was demanded): from then on this history is not judged any more.
    pub abandoned: bool,
}

impl C01 {
    fn key(&self, v: usize) -> (usize, u32) {
        (v, self.inc.get(&v).copied().unwrap_or(0))
    }
    fn find(&mut self, k: (usize, u32)) -> (usize, u32) {
        let mut r = k;
        while let Some(p) = self.uf.get(&r) {
            if *p == r {
                break;
            }
            r = *p;
        }
        // path compression
        let mut c = k;
        while let Some(p) = self.uf.get(&c).copied() {
            if p == c {
                break;
            }
            self.uf.insert(c, r);
            c = p;
        }
        r
    }
    fn union(&mut self, a: (usize, u32), b: (usize, u32)) {
        let ra = self.find(a);
        let rb = self.find(b);
        if ra != rb {
            self.uf.insert(ra, rb);
        }
    }
    fn apply_prim(&mut self, p: &Prim) {
        match p {
            Prim::Add(v) => {
                if !self.present.contains(v) {
                    *self.inc.entry(*v).or_insert(0) += 1;
                    self.present.insert(*v);
                    self.unread.insert(*v, false);
                }
            }
            Prim::Bind(a, b, _) => {
                let (ka, kb) = (self.key(*a), self.key(*b));
                self.ever_bound.insert(ka);
                self.ever_bound.insert(kb);
                self.union(ka, kb);
            }
            Prim::Put(v, _) => {
                self.unread.insert(*v, true);
            }
            Prim::NextId(_) => {}
        }
    }
}

impl HistMonitor for C01 {
    fn before(&mut self, s: &mut Session, op: &Op, ctx: &mut Ctx) {
        // attributing what a merge adds needs the real edges to be the ones the call log implies
        if let (Op::Merge { .. }, false) = (op, self.abandoned) {
            let same = s.m.verts.iter().all(|(v, x)| {
                crate::rec::guarded(|| s.g.kids(*v)).is_ok_and(|mut a| {
                    let mut b = x.edges.clone();
                    a.sort();
                    b.sort();
                    a == b
                })
            });
            if !same {
                self.abandoned = true;
                ctx.c.inc("c01.history-abandoned-edges-differ-before-merge");
            }
        }
    }

    fn after(&mut self, s: &mut Session, op: &Op, o: &mut Outcome, ctx: &mut Ctx) -> Option<String> {
        if self.abandoned {
            return None;
        }
        let unexpected_additions = matches!(op, Op::Merge { .. }) && {
            let mut want: BTreeSet<usize> = o.keys_before.iter().copied().collect();
            for p in &o.prims {
                if let Prim::Add(v) = p {
                    want.insert(*v);
                }
            }
            want != o.keys_after.iter().copied().collect::<BTreeSet<usize>>() && o.keys_after.len() >= o.keys_before.len()
        };
        if o.adopt_error.is_some() || unexpected_additions {
            // the removal rule below needs no attribution and is still applied to this call
            self.abandoned = true;
            ctx.c.inc("c01.history-abandoned-unattributable-compound-call");
        }
        let before: BTreeSet<usize> = o.keys_before.iter().copied().collect();
        let after: BTreeSet<usize> = o.keys_after.iter().copied().collect();
        let removed: Vec<usize> = before.difference(&after).copied().collect();
        // the statement identifies the set of present vertices by keys() and len(): the two must tell the same story
        if o.panic.is_none() {
            let g = &s.g;
            if let Ok((l, e)) = crate::rec::guarded(|| (g.len(), g.is_empty())) {
                ctx.c.inc("c01.len-vs-keys-compared");
                if l != o.keys_after.len() || e != (l == 0) {
                    return Some(format!(
                        "after {}: len() = {l} and is_empty() = {e}, but keys() lists {} vertices {:?}",
                        op.show(),
                        o.keys_after.len(),
                        o.keys_after
                    ));
                }
            }
        }
        match op {
            Op::Data(v) => {
                let was_unread = self.unread.get(v).copied().unwrap_or(false);
                let got = matches!(&o.ret, Ret::Data(Some(_)));
                if got {
                    self.unread.insert(*v, false);
                }
                if removed.is_empty() {
                    self.saw_safe_read = true;
                } else {
                    self.saw_collection = true;
                    if !(was_unread && got) {
                        return Some(format!(
                            "data({v}) was not the first read of a datum (unread={was_unread}, returned data={got}) yet removed {removed:?}"
                        ));
                    }
                    let kv = self.key(*v);
                    for r in &removed {
                        let kr = self.key(*r);
                        if !self.ever_bound.contains(&kr) {
                            return Some(format!(
                                "data({v}) removed ν{r}, which was never an endpoint of a bind"
                            ));
                        }
                        if self.find(kr) != self.find(kv) {
                            return Some(format!(
                                "data({v}) removed ν{r}, which is not linked to ν{v} by any chain of binds"
                            ));
                        }
                        if self.unread.get(r).copied().unwrap_or(false) {
                            return Some(format!(
                                "data({v}) removed ν{r}, which holds a datum that was put and not yet read"
                            ));
                        }
                    }
                }
            }
            _ => {
                if !removed.is_empty() {
                    return Some(format!("{} removed vertices {removed:?}", op.show()));
                }
            }
        }
        // the copy produced by clone / save+load / nothing else must have the same present set
        if let (Op::Clone { .. } | Op::SaveLoad { .. }, Some(other)) = (op, &o.other) {
            let ok = other.keys();
            if ok != o.keys_before {
                return Some(format!(
                    "{}: the copy has vertices {ok:?}, the source had {:?}",
                    op.show(),
                    o.keys_before
                ));
            }
        }
        for r in &removed {
            self.present.remove(r);
            self.unread.remove(r);
        }
        for p in &o.prims {
            self.apply_prim(p);
        }
        // adopt what is really there (additions by compound ops the model could not expand)
        for v in &after {
            if !self.present.contains(v) {
                self.apply_prim(&Prim::Add(*v));
            }
        }
        let _ = s;
        None
    }

    fn finish(&mut self, s: &mut Session, ctx: &mut Ctx) -> Option<String> {
        // drain: the trace rules keep judging every read
        let mut dummy = 0u64;
        let mut me = std::mem::take(self);
        let mut inner_ctx_c = crate::json::Counters::default();
        let r = drain(s, ctx.rng, ctx.c, &mut dummy, &mut |s, op, o| {
            let mut c2 = Ctx { c: &mut inner_ctx_c, rng: &mut crate::rng::Rng::new(1), labels: vec![] };
            let r = me.after(s, op, o, &mut c2);
            if r.is_none() && s.g.keys() != s.m.keys() {
                let snap = s.g.snapshot();
                s.m.resync(&snap);
            }
            r
        });
        *self = me;
        r
    }

    fn nontrivial(&self, _st: &HistStats) -> bool {
        self.saw_collection && self.saw_safe_read && !self.abandoned
    }
}

// ------------------------------------------------------------------------------------ C02 / C06

/// Reference-model equality on the alive set after every call + no panic within limits.
#[derive(Default)]
pub struct C02 {
    pub churn: bool,
    pub slot_fill: bool,
    pub collections: u64,
}

fn judge_model_step(s: &Session, op: &Op, o: &Outcome) -> Option<String> {
    if let Some(p) = &o.panic {
        return Some(format!("legal call {} panicked: {p}", op.show()));
    }
    if o.keys_after != s.m.keys() {
        return Some(format!(
            "after {}: alive set {:?}, reference model {:?}",
            op.show(),
            o.keys_after,
            s.m.keys()
        ));
    }
    None
}

impl HistMonitor for C02 {
    fn after(&mut self, _s: &mut Session, _op: &Op, o: &mut Outcome, _ctx: &mut Ctx) -> Option<String> {
        if !o.model_removed.is_empty() {
            self.collections += 1;
        }
        None // the runner's divergence rule reports (owns_divergence)
    }
    fn finish(&mut self, s: &mut Session, ctx: &mut Ctx) -> Option<String> {
        let mut coll = 0u64;
        if let Some(m) = drain(s, ctx.rng, ctx.c, &mut coll, &mut |s, op, o| judge_model_step(s, op, o)) {
            return Some(m);
        }
        self.collections += coll;
        if self.slot_fill {
            if let Some(m) = slot_fill(s, ctx) {
                return Some(m);
            }
        }
        None
    }
    fn nontrivial(&self, st: &HistStats) -> bool {
        if self.churn {
            st.collections + self.collections >= 15
        } else {
            st.groups_formed >= 2
                && (st.collections + self.collections) >= 1
                && (st.put_before_bind + st.overwrite_unread + st.add_present + st.add_collected) >= 1
        }
    }
    fn owns_divergence(&self) -> bool {
        true
    }
    fn owns_panic(&self, op: &Op) -> bool {
        // "none of these calls panics": the calls the statement names (a panicking next_id() is
        // C07's "calls within the limits complete")
        // a panicking clone() / save() / load() of a hand-over is C10's / C08's)
        matches!(op, Op::Add(_) | Op::Bind(..) | Op::Put(..) | Op::Data(_) | Op::Kid(..) | Op::Kids(_))
    }
}

/// Slot-fill probe: while fewer than 14 groups are alive, create pairs that must be collectable;
/// makes leaked or doubly-issued group slots observable.
pub fn slot_fill(s: &mut Session, ctx: &mut Ctx) -> Option<String> {
    let l = ctx.labels.first().copied().unwrap_or(sodg::Label::Alpha(0));
    // phase 1: fill up to 14 live groups with pairs holding unread data
    let mut pairs: Vec<(usize, usize)> = vec![];
    loop {
        if s.m.live_groups() >= crate::model::MAX_GROUPS {
            break;
        }
        let abs = s.m.absent_ids();
        if abs.len() < 2 {
            break;
        }
        let (a, b) = (abs[0], abs[1]);
        for op in [
            Op::Add(a),
            Op::Add(b),
            Op::Bind(a, b, l),
            Op::Put(b, crate::ops::HexSpec::Canon(vec![0x5F])),
        ] {
            if !s.m.legal(&op) {
                return None;
            }
            let o = s.step(&op);
            ctx.c.inc("probe.slot-fill-calls");
            if let Some(m) = judge_model_step(s, &op, &o) {
                return Some(format!("slot-fill probe: {m}"));
            }
        }
        pairs.push((a, b));
    }
    ctx.c.max("probe.slot-fill-max-live", s.m.live_groups() as u64);
    // phase 2: each pair must die exactly at the read of its datum
    ctx.rng.shuffle(&mut pairs);
    for (_, b) in pairs {
        let op = Op::Data(b);
        let o = s.step(&op);
        ctx.c.inc("probe.slot-fill-calls");
        if let Some(m) = judge_model_step(s, &op, &o) {
            return Some(format!("slot-fill probe: {m}"));
        }
    }
    None
}

// ------------------------------------------------------------------------------------ C03

#[derive(Default)]
pub struct C03 {
    pub saw_foreign_collection_check: bool,
    vertex_checks: u64,
    real: BTreeMap<usize, Option<Vec<u8>>>,
    suspect: Option<usize>,
    suspects_done: BTreeSet<usize>,
}

impl C03 {
    /// Spend a real read on a vertex whose stored bytes (hook) differ from the last put.
    fn probe_suspect(&mut self, s: &mut Session, c: &mut crate::json::Counters) -> Option<String> {
        let v = self.suspect.take()?;
        self.suspects_done.insert(v);
        if !s.m.present(v) || !s.g.keys().contains(&v) {
            return None;
        }
        let op = Op::Data(v);
        let o = s.step(&op);
        c.inc("c03.suspect-data-reads");
        if o.panic.is_some() {
            return None;
        }
        if let (Ret::Data(r), Some(Ret::Data(w))) = (&o.ret, &o.model_ret) {
            if r != w {
                return Some(format!("{} returned {}, last put says {}", op.show(), show_data(r), show_data(w)));
            }
        }
        c.inc("c03.latent-data-difference-unconfirmed");
        None
    }

    fn compare_all(&mut self, s: &Session, labels: &[sodg::Label], after_what: &str) -> Option<String> {
        let keys = s.g.keys();
        self.real = crate::rec::real_data(s.g.as_ref());
        for v in keys {
            let Some(mv) = s.m.verts.get(&v) else { continue };
            self.vertex_checks += 1;
            let ks = s.g.kids(v);
            // exactly one entry per label so bound
            let mut seen = BTreeSet::new();
            for (l, _) in &ks {
                if !seen.insert(*l) {
                    return Some(format!("after {after_what}: kids({v}) lists label {l} twice: {}", show_edges(&ks)));
                }
            }
            let mut real: Vec<(String, usize)> = ks.iter().map(|(l, t)| (label_text(l), *t)).collect();
            let mut want: Vec<(String, usize)> = mv.edges.iter().map(|(l, t)| (label_text(l), *t)).collect();
            real.sort();
            want.sort();
            if real != want {
                return Some(format!(
                    "after {after_what}: kids({v}) = {}, last writes say {}",
                    show_edges(&ks),
                    show_edges(&mv.edges)
                ));
            }
            for l in labels {
                let r = s.g.kid(v, *l);
                let w = s.m.kid(v, *l);
                if r != w {
                    return Some(format!("after {after_what}: kid({v},{l}) = {r:?}, last bind says {w:?}"));
                }
            }
            // data without reading: the hook shows what the vertex really holds; a difference from
            // the last put is only a trigger — a real data(v) is spent there and its return judged
            if let Some(rd) = self.real.get(&v) {
                if *rd != mv.data && !self.suspects_done.contains(&v) {
                    self.suspect = Some(v);
                }
            }
        }
        None
    }
}

fn show_edges(e: &[(sodg::Label, usize)]) -> String {
    format!("[{}]", e.iter().map(|(l, t)| format!("{l}→{t}")).collect::<Vec<_>>().join(", "))
}

impl HistMonitor for C03 {
    fn after(&mut self, s: &mut Session, op: &Op, o: &mut Outcome, ctx: &mut Ctx) -> Option<String> {
        // return values of reads
        match (&o.ret, &o.model_ret) {
            (Ret::Data(r), Some(Ret::Data(w))) => {
                if r != w {
                    return Some(format!(
                        "{} returned {}, last put says {}",
                        op.show(),
                        show_data(r),
                        show_data(w)
                    ));
                }
            }
            (Ret::Kid(r), Some(Ret::Kid(w))) => {
                if r != w {
                    return Some(format!("{} returned {r:?}, last bind says {w:?}", op.show()));
                }
            }
            _ => {}
        }
        if !o.model_removed.is_empty() && s.g.keys().len() > 0 {
            self.saw_foreign_collection_check = true;
        }
        let labels = ctx.labels.clone();
        if let Some(m) = self.compare_all(s, &labels, &op.show()) {
            return Some(m);
        }
        self.probe_suspect(s, ctx.c)
    }

    fn finish(&mut self, s: &mut Session, ctx: &mut Ctx) -> Option<String> {
        // read everything (twice): first and repeated reads must return the last put
        let mut dummy = 0;
        let labels = ctx.labels.clone();
        let mut me = std::mem::take(self);
        let r = drain(s, ctx.rng, ctx.c, &mut dummy, &mut |s, op, o| {
            if let (Ret::Data(r), Some(Ret::Data(w))) = (&o.ret, &o.model_ret) {
                if r != w {
                    return Some(format!("{} returned {}, last put says {}", op.show(), show_data(r), show_data(w)));
                }
            }
            if s.g.keys() != s.m.keys() {
                let snap = s.g.snapshot();
                s.m.resync(&snap);
            }
            me.compare_all(s, &labels, &op.show())
        });
        *self = me;
        ctx.c.add("c03.vertex-checks", self.vertex_checks);
        r
    }

    fn nontrivial(&self, st: &HistStats) -> bool {
        st.label_overwrites >= 1 && st.data_overwrites >= 1 && st.repeated_reads >= 1 && self.saw_foreign_collection_check
    }
}

fn show_data(d: &Option<Vec<u8>>) -> String {
    match d {
        None => "None".to_string(),
        Some(b) => format!("{} bytes [{}]", b.len(), crate::ops::hex(b)),
    }
}

// ------------------------------------------------------------------------------------ C04

/// Before/after digest at every add + twin without the redundant adds.
pub struct C04 {
    twin: Box<dyn Graph>,
    before: Option<(bool, String)>,
    pub saw_add_present_grouped: bool,
    pub saw_add_recycled_dirty: bool,
    twin_dead: bool,
    dirty_ids: BTreeSet<usize>,
    uniq: u64,
}

impl C04 {
    pub fn new(n: usize, cap: usize) -> Self {
        Self {
            twin: new_graph(n, cap),
            before: None,
            saw_add_present_grouped: false,
            saw_add_recycled_dirty: false,
            twin_dead: false,
            dirty_ids: BTreeSet::new(),
            uniq: 0,
        }
    }
    fn twin_apply(&mut self, op: &Op) -> Result<Ret, String> {
        let t = &mut self.twin;
        guarded(|| match op {
            Op::Add(v) => {
                t.add(*v);
                Ret::Unit
            }
            Op::Bind(a, b, l) => {
                t.bind(*a, *b, *l);
                Ret::Unit
            }
            Op::Put(v, d) => {
                t.put(*v, &d.to_hex());
                Ret::Unit
            }
            Op::Data(v) => Ret::Data(t.data(*v).map(|h| h.bytes().to_vec())),
            Op::Kid(v, l) => Ret::Kid(t.kid(*v, *l)),
            Op::Kids(v) => Ret::Kids(t.kids(*v)),
            Op::NextId => Ret::Id(t.next_id()),
            _ => Ret::Unit,
        })
    }
}

const FULL: u8 = O_KEYS | O_EDGES | O_TEXT | O_INSPECT;

impl HistMonitor for C04 {
    fn before(&mut self, s: &mut Session, op: &Op, ctx: &mut Ctx) {
        self.before = None;
        if let Op::Add(v) = op {
            let present = s.g.keys().contains(v);
            if present {
                self.before = Some((true, digest(s.g.as_ref(), FULL, &ctx.labels)));
            } else {
                self.before = Some((false, String::new()));
            }
        }
    }

    fn after(&mut self, s: &mut Session, op: &Op, o: &mut Outcome, ctx: &mut Ctx) -> Option<String> {
        // remember which ids carried edges or data when they were collected
        if let Op::Data(_) = op {
            for r in &o.model_removed {
                self.dirty_ids.insert(*r);
            }
        }
        let mut redundant = false;
        if let (Op::Add(v), Some((present, dig))) = (op, self.before.take()) {
            if present {
                redundant = true;
                if s.m.group_of(*v).is_some() {
                    self.saw_add_present_grouped = true;
                }
                let now = digest(s.g.as_ref(), FULL, &ctx.labels);
                if now != dig {
                    return Some(format!("add({v}) on a present vertex changed the graph: {}", first_diff(&dig, &now)));
                }
            } else {
                if self.dirty_ids.remove(v) {
                    self.saw_add_recycled_dirty = true;
                }
                if !o.keys_after.contains(v) {
                    return Some(format!("add({v}) on an absent id did not make it present"));
                }
                let ks = s.g.kids(*v);
                if !ks.is_empty() {
                    return Some(format!("add({v}) on an absent id created a vertex with edges {}", show_edges(&ks)));
                }
                // a real read: must be None (no side effect on an empty vertex)
                let rd = Op::Data(*v);
                let o2 = s.step(&rd);
                ctx.c.inc("c04.blank-read-probes");
                if let Some(p) = &o2.panic {
                    return Some(format!("data({v}) right after add({v}) panicked: {p}"));
                }
                if o2.ret != Ret::Data(None) {
                    return Some(format!("data({v}) right after add({v}) on an absent id returned {:?}", o2.ret));
                }
                if !self.twin_dead {
                    let _ = self.twin_apply(op);
                    let _ = self.twin_apply(&rd);
                }
            }
        }
        let _ = redundant;
        // hand-overs (the history goes on with a clone / a reloaded image): the twin does the same
        if !self.twin_dead && matches!(op, Op::Clone { swap: true } | Op::SaveLoad { swap: true }) {
            let ok = o.panic.is_none() && !matches!(&o.ret, Ret::Res(Err(_)));
            let r = if ok { crate::rec::exec_raw(&mut self.twin, op, &s.workdir, &mut self.uniq, &ctx.labels) } else { Err(String::new()) };
            match r {
                Ok(Ret::Res(Err(_))) | Err(_) => {
                    self.twin_dead = true;
                    ctx.c.inc("c04.twin-dropped-at-a-failed-hand-over");
                }
                Ok(_) => ctx.c.inc("c04.hand-overs-to-a-clone-or-reloaded-image"),
            }
        }
        // twin: same history minus the redundant adds (fresh adds were applied above)
        if !self.twin_dead && !matches!(op, Op::Add(_) | Op::Clone { .. } | Op::SaveLoad { .. }) {
            match self.twin_apply(op) {
                Ok(r) => {
                    let same = match (&r, &o.ret) {
                        (Ret::Unit, _) => true,
                        (a, b) => a == b,
                    };
                    if !same {
                        return Some(format!(
                            "{} returned {:?}; the same history without its redundant add() calls returned {:?}",
                            op.show(),
                            o.ret,
                            r
                        ));
                    }
                }
                Err(p) => {
                    return Some(format!(
                        "{} panicked ({p}) in the history without redundant add() calls but not with them",
                        op.show()
                    ));
                }
            }
        }
        if !self.twin_dead {
            let a = digest(s.g.as_ref(), O_KEYS | O_EDGES, &ctx.labels);
            let b = digest(self.twin.as_ref(), O_KEYS | O_EDGES, &ctx.labels);
            if a != b {
                return Some(format!(
                    "after {}: history with redundant add() calls differs from the one without: {}",
                    op.show(),
                    first_diff(&a, &b)
                ));
            }
        }
        None
    }

    fn finish(&mut self, s: &mut Session, ctx: &mut Ctx) -> Option<String> {
        // drain both twins in the same order: "nor the moment it will be collected"
        let mut dummy = 0;
        let labels = ctx.labels.clone();
        let mut twin = std::mem::replace(&mut self.twin, new_graph(1, 1));
        let r = drain(s, ctx.rng, ctx.c, &mut dummy, &mut |s, op, o| {
            if o.panic.is_some() {
                return None; // not C04's business; drain() stops on a panic
            }
            if let Op::Data(v) = op {
                let t = &mut twin;
                let r = guarded(|| t.data(*v).map(|h| h.bytes().to_vec()));
                match r {
                    Ok(d) => {
                        if Ret::Data(d.clone()) != o.ret {
                            return Some(format!(
                                "drain: data({v}) returned {:?} vs {:?} without the redundant adds",
                                o.ret, d
                            ));
                        }
                    }
                    Err(p) => return Some(format!("drain: data({v}) panicked in the twin: {p}")),
                }
            }
            if s.g.keys() != s.m.keys() {
                let snap = s.g.snapshot();
                s.m.resync(&snap);
            }
            let a = digest(s.g.as_ref(), O_KEYS | O_EDGES, &labels);
            let b = digest(twin.as_ref(), O_KEYS | O_EDGES, &labels);
            if a != b {
                return Some(format!(
                    "drain after {}: history with redundant add() calls differs from the one without: {}",
                    op.show(),
                    first_diff(&a, &b)
                ));
            }
            None
        });
        if r.is_none() {
            let a = digest(s.g.as_ref(), FULL, &labels);
            let b = digest(twin.as_ref(), FULL, &labels);
            if a != b {
                return Some(format!("final texts differ with/without redundant add(): {}", first_diff(&a, &b)));
            }
        }
        self.twin = twin;
        r
    }

    fn nontrivial(&self, _st: &HistStats) -> bool {
        self.saw_add_present_grouped && self.saw_add_recycled_dirty
    }
}

// ------------------------------------------------------------------------------------ C05

#[derive(Default)]
pub struct C05 {
    returned: BTreeSet<usize>,
    pub next_ids: u64,
    seen_add_between: bool,
    seen_collect_between: bool,
    pub qualified: bool,
    since_last: (bool, bool),
}

impl HistMonitor for C05 {
    fn after(&mut self, s: &mut Session, op: &Op, o: &mut Outcome, _ctx: &mut Ctx) -> Option<String> {
        let check = |ret: &mut BTreeSet<usize>, id: usize, what: &str| -> Option<String> {
            if id >= s.cap {
                return Some(format!("{what} returned {id}, not below the capacity {}", s.cap));
            }
            if o.keys_before.contains(&id) {
                return Some(format!("{what} returned {id}, which is present"));
            }
            if !ret.insert(id) {
                return Some(format!("{what} returned {id} for the second time in this lineage"));
            }
            None
        };
        match op {
            Op::NextId => {
                if let Ret::Id(id) = &o.ret {
                    self.next_ids += 1;
                    if let Some(m) = check(&mut self.returned, *id, "next_id()") {
                        return Some(m);
                    }
                    if self.since_last.0 {
                        self.seen_add_between = true;
                    }
                    if self.since_last.1 {
                        self.seen_collect_between = true;
                    }
                    self.since_last = (false, false);
                    if self.next_ids >= 3 && self.seen_add_between && self.seen_collect_between {
                        self.qualified = true;
                    }
                }
            }
            Op::Add(_) => self.since_last.0 = true,
            Op::Data(_) => {
                if !o.model_removed.is_empty() {
                    self.since_last.1 = true;
                }
            }
            Op::SaveLoad { swap: true } => self.returned.clear(),
            Op::Merge { .. } => {
                // facts only: the ids that appeared during the call are allocator results
                let before: BTreeSet<usize> = o.keys_before.iter().copied().collect();
                let after: BTreeSet<usize> = o.keys_after.iter().copied().collect();
                let created: Vec<usize> = after.difference(&before).copied().collect();
                for id in &created {
                    if let Some(m) = check(&mut self.returned, *id, "merge() internally") {
                        return Some(m);
                    }
                }
            }
            Op::Script { cmds, .. } => {
                // facts only: ids that appeared and were not added literally are variable ids
                let before: BTreeSet<usize> = o.keys_before.iter().copied().collect();
                let after: BTreeSet<usize> = o.keys_after.iter().copied().collect();
                let mut literal = BTreeSet::new();
                for c in cmds {
                    if let crate::ops::Cmd::Add(crate::ops::Ident::Lit(v)) = c {
                        literal.insert(*v);
                    }
                }
                for id in after.difference(&before) {
                    if literal.contains(id) {
                        continue;
                    }
                    if let Some(m) = check(&mut self.returned, *id, "a script variable") {
                        return Some(m);
                    }
                }
            }
            _ => {}
        }
        None
    }
    fn nontrivial(&self, _st: &HistStats) -> bool {
        self.qualified
    }
}
