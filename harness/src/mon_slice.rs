//! Slice monitor C13. (filled in below)
use crate::hist::{Ctx, HistMonitor, HistStats};
use crate::ops::Op;
use crate::rec::{Outcome, Session};
#[derive(Default)] pub struct C13;
impl HistMonitor for C13 {
    fn after(&mut self, _s: &mut Session, _op: &Op, _o: &Outcome, _c: &mut Ctx) -> Option<String> { None }
    fn nontrivial(&self, _c: &HistStats) -> bool { false }
}
