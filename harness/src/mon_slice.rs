//! C13: slice() / slice_some() return exactly the reachable sub-graph. The oracle is a closure
//! computed by the monitor from the source's own kids() and a pure predicate table.

use crate::hist::{Ctx, HistMonitor, HistStats};
use crate::ops::{label_text, Op};
use crate::rec::{digest, first_diff, guarded, Outcome, Session, O_EDGES, O_KEYS};
use crate::rng::Fnv;
use sodg::Label;
use std::cell::Cell;
use std::collections::{BTreeMap, BTreeSet};

#[derive(Default)]
pub struct C13 {
    since: usize,
    pub qualified: u64,
    pub slices: u64,
}

#[derive(Clone, Copy, Debug)]
pub enum Pred {
    All,
    None,
    Percent(u64, u64),
    LabelParity(u64),
    NotInto(usize),
}

impl Pred {
    pub fn accept(&self, from: usize, to: usize, l: Label) -> bool {
        match self {
            Pred::All => true,
            Pred::None => false,
            Pred::Percent(p, seed) => {
                let mut f = Fnv::new();
                f.write_u64(*seed);
                f.write_u64(from as u64);
                f.write_u64(to as u64);
                f.write_str(&label_text(&l));
                // FNV's low bits are weak: mix
                let mut x = f.0;
                (crate::rng::splitmix(&mut x) % 100) < *p
            }
            Pred::LabelParity(seed) => {
                let mut f = Fnv::new();
                f.write_u64(*seed);
                f.write_str(&label_text(&l));
                let mut x = f.0;
                crate::rng::splitmix(&mut x) % 2 == 0
            }
            Pred::NotInto(v) => to != *v,
        }
    }
}

type Edges = BTreeMap<usize, Vec<(Label, usize)>>;

/// Everything reachable from v over all edges, or None if it leaves the present set / exceeds 14.
fn reachable_all(keys: &BTreeSet<usize>, edges: &Edges, v: usize) -> Option<BTreeSet<usize>> {
    let mut seen = BTreeSet::new();
    let mut todo = vec![v];
    while let Some(x) = todo.pop() {
        if !keys.contains(&x) {
            return None;
        }
        if !seen.insert(x) {
            continue;
        }
        for (_, t) in &edges[&x] {
            if !seen.contains(t) {
                todo.push(*t);
            }
        }
    }
    if seen.len() > 14 {
        None
    } else {
        Some(seen)
    }
}

fn closure(edges: &Edges, v: usize, p: &Pred) -> BTreeSet<usize> {
    let mut seen = BTreeSet::new();
    seen.insert(v);
    let mut todo = vec![v];
    while let Some(x) = todo.pop() {
        for (l, t) in &edges[&x] {
            if !seen.contains(t) && p.accept(x, *t, *l) {
                seen.insert(*t);
                todo.push(*t);
            }
        }
    }
    seen
}

fn has_cycle(edges: &Edges, within: &BTreeSet<usize>) -> bool {
    // colour DFS
    fn go(u: usize, edges: &Edges, within: &BTreeSet<usize>, col: &mut BTreeMap<usize, u8>) -> bool {
        col.insert(u, 1);
        for (_, t) in &edges[&u] {
            if !within.contains(t) {
                continue;
            }
            match col.get(t).copied().unwrap_or(0) {
                1 => return true,
                0 => {
                    if go(*t, edges, within, col) {
                        return true;
                    }
                }
                _ => {}
            }
        }
        col.insert(u, 2);
        false
    }
    let mut col = BTreeMap::new();
    for u in within {
        if col.get(u).copied().unwrap_or(0) == 0 && go(*u, edges, within, &mut col) {
            return true;
        }
    }
    false
}

impl C13 {
    pub fn check_slices(&mut self, s: &mut Session, ctx: &mut Ctx, exhaustive_starts: bool) -> Option<String> {
        if !crate::rec::kids_match_stored_edges(s.g.as_ref()) {
            ctx.c.inc("c13.kids()-disagrees-with-the-stored-edges(no reference for edges, skipped)");
            return None;
        }
        let keys: BTreeSet<usize> = s.g.keys().into_iter().collect();
        let mut edges: Edges = BTreeMap::new();
        for v in &keys {
            edges.insert(*v, s.g.kids(*v));
        }
        let before = digest(s.g.as_ref(), O_KEYS | O_EDGES, &ctx.labels);
        // "the source graph is unchanged": also everything it stores (data bytes, read marks, groups, counters)
        let stored_before = s.g.snapshot();
        let mut starts: Vec<usize> = keys.iter().copied().collect();
        ctx.rng.shuffle(&mut starts);
        if !exhaustive_starts {
            starts.truncate(3);
        }
        for v in starts {
            let Some(reach) = reachable_all(&keys, &edges, v) else {
                ctx.c.inc("c13.start-outside-quantifier");
                continue;
            };
            let cyclic = has_cycle(&edges, &reach);
            let seed = ctx.rng.next();
            let mut preds = vec![Pred::All, Pred::None, Pred::Percent(30, seed), Pred::Percent(50, seed ^ 1), Pred::Percent(80, seed ^ 2), Pred::LabelParity(seed)];
            let rv: Vec<usize> = reach.iter().copied().collect();
            preds.push(Pred::NotInto(*ctx.rng.pick(&rv)));
            let n_edges: usize = reach.iter().map(|u| edges[u].len()).sum();
            let bound = (n_edges * reach.len() + 16) as u64;
            for p in preds {
                let calls = Cell::new(0u64);
                let pf = |a: usize, b: usize, l: Label| -> bool {
                    calls.set(calls.get() + 1);
                    assert!(calls.get() <= bound, "predicate invoked more than |E|*|V|+16 = {bound} times: slice does not terminate");
                    p.accept(a, b, l)
                };
                if let Some(f) = &mut s.sink {
                    use std::io::Write;
                    let _ = writeln!(f, "# slice_some({v}, {p:?})");
                }
                let r = guarded(|| s.g.slice_some(v, &pf));
                self.slices += 1;
                ctx.c.inc("c13.slices-checked");
                let sl = match r {
                    Err(pn) => {
                        // as-if: slice rebuilds the kept part with add()/bind(); if the same public calls
                        // panic as well the defect is not slice's
                        let kept = closure(&edges, v, &p);
                        let (n, cap) = (s.n, s.cap);
                        let rebuilt = guarded(|| {
                            let mut ng = crate::shim::new_graph(n, cap);
                            for v1 in &kept {
                                ng.add(*v1);
                                for (k, v2) in &edges[v1] {
                                    if kept.contains(v2) {
                                        ng.add(*v2);
                                        ng.bind(*v1, *v2, *k);
                                    }
                                }
                            }
                        });
                        if rebuilt.is_err() {
                            ctx.c.inc("c13.slice-and-reference-rebuild-both-panic(skipped)");
                            continue;
                        }
                        return Some(format!("slice_some({v}, {p:?}) panicked: {pn}"));
                    }
                    Ok(Err(e)) => return Some(format!("slice_some({v}, {p:?}) returned Err: {e}")),
                    Ok(Ok(g)) => g,
                };
                let kept = closure(&edges, v, &p);
                let got: BTreeSet<usize> = sl.keys().into_iter().collect();
                if got != kept {
                    return Some(format!(
                        "slice_some({v}, {p:?}) has vertices {got:?}; reachable over accepted edges are {kept:?}"
                    ));
                }
                let mut rejected_but_kept = false;
                for u in &kept {
                    let sk = sl.kids(*u);
                    // no edge that the source lacks, no label twice
                    let mut seen = BTreeSet::new();
                    for (l, t) in &sk {
                        if !edges[u].iter().any(|(a, b)| a == l && b == t) {
                            return Some(format!("slice_some({v}, {p:?}): edge ν{u}.{l}→ν{t} is not in the source"));
                        }
                        if !seen.insert(*l) {
                            return Some(format!("slice_some({v}, {p:?}): ν{u} lists label {l} twice"));
                        }
                    }
                    // every accepted edge between kept vertices
                    for (l, t) in &edges[u] {
                        if !kept.contains(t) {
                            continue;
                        }
                        if p.accept(*u, *t, *l) {
                            if sl.kid(*u, *l) != Some(*t) {
                                return Some(format!(
                                    "slice_some({v}, {p:?}): accepted edge ν{u}.{l}→ν{t} between kept vertices is missing (kid = {:?})",
                                    sl.kid(*u, *l)
                                ));
                            }
                        } else {
                            rejected_but_kept = true;
                        }
                    }
                }
                if matches!(p, Pred::All) {
                    // slice(v) == slice_some(v, accept-all)
                    let r2 = guarded(|| s.g.slice(v));
                    match r2 {
                        Ok(Ok(g2)) => {
                            let a = digest(sl.as_ref(), O_KEYS | O_EDGES, &ctx.labels);
                            let b = digest(g2.as_ref(), O_KEYS | O_EDGES, &ctx.labels);
                            if a != b {
                                return Some(format!("slice({v}) differs from slice_some({v}, accept-all): {}", first_diff(&b, &a)));
                            }
                        }
                        Ok(Err(e)) => return Some(format!("slice({v}) returned Err: {e}")),
                        Err(pn) => return Some(format!("slice({v}) panicked: {pn}")),
                    }
                }
                if cyclic && rejected_but_kept {
                    self.qualified += 1;
                }
            }
        }
        let after = digest(s.g.as_ref(), O_KEYS | O_EDGES, &ctx.labels);
        if before != after {
            return Some(format!("slicing changed the source graph: {}", first_diff(&before, &after)));
        }
        let stored_after = s.g.snapshot();
        if stored_before != stored_after {
            let what = stored_before
                .slots
                .iter()
                .zip(stored_after.slots.iter())
                .find(|(a, b)| a != b)
                .map_or("group lists / counters / allocator".to_string(), |(a, b)| {
                    format!(
                        "ν{}: data {} → {}, read mark {} → {}, group {} → {}",
                        a.id,
                        crate::ops::hex(&a.data),
                        crate::ops::hex(&b.data),
                        a.persistence,
                        b.persistence,
                        a.branch,
                        b.branch
                    )
                });
            return Some(format!("slicing changed what the source graph stores ({what})"));
        }
        None
    }
}

impl HistMonitor for C13 {
    fn after(&mut self, s: &mut Session, op: &Op, _o: &mut Outcome, ctx: &mut Ctx) -> Option<String> {
        if !matches!(op, Op::Bind(..) | Op::Data(_) | Op::Add(_)) {
            return None;
        }
        self.since += 1;
        if self.since < 6 {
            return None;
        }
        self.since = 0;
        self.check_slices(s, ctx, false)
    }
    fn finish(&mut self, s: &mut Session, ctx: &mut Ctx) -> Option<String> {
        let r = self.check_slices(s, ctx, true);
        ctx.c.add("c13.cyclic-with-rejected-edge-into-kept", self.qualified);
        r
    }
    fn nontrivial(&self, _c: &HistStats) -> bool {
        self.qualified >= 1
    }
    fn owns_panic(&self, _op: &Op) -> bool {
        // slices taken by the monitor itself are judged (with the as-if rebuild on a panic);
        // a slice op inside the generated history is only part of the workload
        false
    }
}
