//! C18 (XML / DOT exports) and C20 (inspect / Debug / v_print): parse-back monitors. The text is
//! parsed by the monitor and compared with keys()/kids() of the same graph and the data the
//! model recorded; C18 additionally builds the same abstract graph a second way (canonicity).

use crate::hist::{Ctx, HistMonitor, HistStats};
use crate::ops::{spec_show as label_show, Op};
use crate::rec::{guarded, Outcome, Session};
use crate::shim::{new_graph, Graph};
use std::collections::{BTreeMap, BTreeSet};

type Parsed = Vec<(usize, Vec<(String, usize)>, Option<Vec<u8>>)>;

fn parse_hex_text(t: &str) -> Option<Vec<u8>> {
    let t = t.trim();
    if t.is_empty() || t.chars().all(|c| c == '-' || c == ' ') {
        return Some(vec![]);
    }
    t.split(|c: char| c == '-' || c.is_whitespace())
        .filter(|x| !x.is_empty())
        .map(|x| if x.len() == 2 { u8::from_str_radix(x, 16).ok() } else { None })
        .collect()
}

pub fn parse_xml(xml: &str) -> Result<Parsed, String> {
    let pkg = sxd_document::parser::parse(xml).map_err(|e| format!("XML does not parse: {e:?}"))?;
    let doc = pkg.as_document();
    let root = doc
        .root()
        .children()
        .into_iter()
        .find_map(|c| c.element())
        .ok_or("no root element")?;
    if root.name().local_part() != "sodg" {
        return Err(format!("root element is <{}>", root.name().local_part()));
    }
    let mut out = vec![];
    for c in root.children() {
        let Some(v) = c.element() else { continue };
        if v.name().local_part() != "v" {
            return Err(format!("unexpected element <{}> under <sodg>", v.name().local_part()));
        }
        let id: usize = v.attribute_value("id").ok_or("<v> without id")?.parse().map_err(|_| "non-numeric id")?;
        let mut edges = vec![];
        let mut data = None;
        for e in v.children() {
            let Some(e) = e.element() else { continue };
            match e.name().local_part() {
                "e" => {
                    let a = e.attribute_value("a").ok_or("<e> without a")?.to_string();
                    let to: usize = e.attribute_value("to").ok_or("<e> without to")?.parse().map_err(|_| "non-numeric to")?;
                    edges.push((a, to));
                }
                "data" => {
                    let txt: String = e.children().into_iter().filter_map(|t| t.text().map(|t| t.text().to_string())).collect();
                    if data.is_some() {
                        return Err(format!("ν{id} has two <data> elements"));
                    }
                    data = Some(parse_hex_text(&txt).ok_or(format!("ν{id}: data text {txt:?} is not hex"))?);
                }
                other => return Err(format!("unexpected element <{other}> under <v>")),
            }
        }
        out.push((id, edges, data));
    }
    Ok(out)
}

pub fn parse_dot(dot: &str) -> Result<Parsed, String> {
    let mut nodes: Vec<(usize, Vec<(String, usize)>, Option<Vec<u8>>)> = vec![];
    let mut closed = false;
    for line in dot.lines() {
        let l = line.trim();
        if l.is_empty() || l.starts_with("/*") || l.starts_with("digraph") || l.starts_with("node [") || l.starts_with("edge [") {
            continue;
        }
        if l == "}" {
            closed = true;
            continue;
        }
        if let Some(pos) = l.find(" -> ") {
            // v1 -> v2 [label="x"...];
            let from: usize = l[..pos].trim().strip_prefix('v').and_then(|x| x.parse().ok()).ok_or(format!("bad edge line {l:?}"))?;
            let rest = &l[pos + 4..];
            let sp = rest.find(' ').ok_or(format!("bad edge line {l:?}"))?;
            let to: usize = rest[..sp].strip_prefix('v').and_then(|x| x.parse().ok()).ok_or(format!("bad edge line {l:?}"))?;
            let lab = rest.split("label=\"").nth(1).and_then(|x| x.split('"').next()).ok_or(format!("edge without label {l:?}"))?;
            if !nodes.iter().any(|n| n.0 == from) {
                return Err(format!("edge from v{from} before/without its node line"));
            }
            if nodes.last().map(|n| n.0) != Some(from) {
                return Err(format!("edge of v{from} not listed under its node"));
            }
            nodes.last_mut().unwrap().1.push((lab.to_string(), to));
        } else if l.contains("[shape=circle") {
            let br = l.find('[').unwrap();
            let id: usize = l[..br].strip_prefix('v').and_then(|x| x.parse().ok()).ok_or(format!("bad node line {l:?}"))?;
            let lab = l.split("label=\"").nth(1).and_then(|x| x.split('"').next()).unwrap_or("");
            if lab != format!("ν{id}") {
                return Err(format!("node v{id} labelled {lab:?}"));
            }
            let data = if let Some(p) = l.find("/*") {
                let inner = l[p + 2..].split("*/").next().unwrap_or("");
                Some(parse_hex_text(inner).ok_or(format!("v{id}: data comment {inner:?} is not hex"))?)
            } else {
                None
            };
            let coloured = l.contains("color=");
            if coloured != data.is_some() {
                return Err(format!("v{id}: data colour and data comment disagree"));
            }
            nodes.push((id, vec![], data));
        } else {
            return Err(format!("unexpected DOT line {l:?}"));
        }
    }
    if !closed {
        return Err("DOT text is not closed".to_string());
    }
    Ok(nodes)
}

/// Compare parsed text with the graph: nodes == keys (ascending), edges == kids, data == model.
fn compare(what: &str, parsed: &Parsed, s: &Session) -> Option<String> {
    let real = crate::rec::real_data(s.g.as_ref());
    let ids: Vec<usize> = parsed.iter().map(|p| p.0).collect();
    let keys = s.g.keys();
    let mut sorted = ids.clone();
    sorted.sort_unstable();
    if sorted != keys {
        let extra: Vec<&usize> = ids.iter().filter(|i| !keys.contains(i)).collect();
        let missing: Vec<&usize> = keys.iter().filter(|i| !ids.contains(i)).collect();
        return Some(format!(
            "{what} lists {} vertices, {} are present (absent ids listed: {extra:?}, present ids missing: {missing:?})",
            ids.len(),
            keys.len()
        ));
    }
    if ids != sorted {
        return Some(format!("{what} does not list vertices in ascending id order: {ids:?}"));
    }
    for (id, edges, data) in parsed {
        let mut got: Vec<(String, usize)> = edges.clone();
        let mut want: Vec<(String, usize)> = s.g.kids(*id).iter().map(|(l, t)| (label_show(l), *t)).collect();
        got.sort();
        want.sort();
        if got != want {
            return Some(format!("{what}: ν{id} has edge entries {got:?}, kids() says {want:?}"));
        }
        if let Some(rd) = real.get(id) {
            if data != rd {
                return Some(format!(
                    "{what}: ν{id} shows data {:?}, the vertex holds {:?}",
                    data.as_ref().map(|d| crate::ops::hex(d)),
                    rd.as_ref().map(|d| crate::ops::hex(d))
                ));
            }
        }
    }
    None
}

// ------------------------------------------------------------------------------------ C18

#[derive(Default)]
pub struct C18 {
    since: usize,
    pub qualified: bool,
    pub exports: u64,
    pub canon_checked: u64,
}

impl C18 {
    fn check(&mut self, s: &mut Session, ctx: &mut Ctx, canon: bool) -> Option<String> {
        if !crate::rec::kids_match_stored_edges(s.g.as_ref()) {
            ctx.c.inc("c18.kids()-disagrees-with-the-stored-edges(no reference for edges, skipped)");
            return None;
        }
        let xml = match guarded(|| s.g.to_xml()) {
            Ok(Ok(x)) => x,
            Ok(Err(e)) => return Some(format!("to_xml() returned Err: {e}")),
            Err(p) => return Some(format!("to_xml() panicked: {p}")),
        };
        let dot = match guarded(|| s.g.to_dot()) {
            Ok(d) => d,
            Err(p) => return Some(format!("to_dot() panicked: {p}")),
        };
        self.exports += 1;
        ctx.c.inc("c18.exports-parsed");
        match parse_xml(&xml) {
            Ok(p) => {
                if let Some(m) = compare("to_xml()", &p, s) {
                    return Some(m);
                }
            }
            Err(e) => return Some(format!("to_xml(): {e}")),
        }
        match parse_dot(&dot) {
            Ok(p) => {
                if let Some(m) = compare("to_dot()", &p, s) {
                    return Some(m);
                }
            }
            Err(e) => return Some(format!("to_dot(): {e}")),
        }
        // non-triviality: collected id + never-added id + a vertex with >=2 edges and data
        let keys = s.g.keys();
        let has_collected = !s.m.graveyard.is_empty();
        let never_added = keys.len() + s.m.graveyard.len() < s.cap;
        let rich = keys.iter().any(|v| s.g.kids(*v).len() >= 2 && s.m.verts.get(v).is_some_and(|x| x.data.is_some()));
        if has_collected && never_added && rich {
            self.qualified = true;
        }
        if canon {
            if let Some(m) = self.canonicity(s, ctx, &xml, &dot) {
                return Some(m);
            }
        }
        None
    }

    /// Build the same abstract graph (present vertices, edges, data) by a different history on a
    /// graph of different N / capacity; the two texts must be byte-identical.
    fn canonicity(&mut self, s: &mut Session, ctx: &mut Ctx, xml: &str, dot: &str) -> Option<String> {
        let keys = s.g.keys();
        if keys.is_empty() {
            return None;
        }
        let keyset: BTreeSet<usize> = keys.iter().copied().collect();
        let mut edges: Vec<(usize, sodg::Label, usize)> = vec![];
        let mut maxdeg = 0;
        for v in &keys {
            let ks = s.g.kids(*v);
            maxdeg = maxdeg.max(ks.len());
            for (l, t) in ks {
                if !keyset.contains(&t) || t == *v {
                    ctx.c.inc("c18.canon-skipped-dangling-or-self-edge");
                    return None;
                }
                edges.push((*v, l, t));
            }
        }
        // undirected components
        let mut comp: BTreeMap<usize, usize> = keys.iter().map(|v| (*v, *v)).collect();
        fn find(c: &mut BTreeMap<usize, usize>, v: usize) -> usize {
            let p = c[&v];
            if p == v {
                v
            } else {
                let r = find(c, p);
                c.insert(v, r);
                r
            }
        }
        for (a, _, b) in &edges {
            let (ra, rb) = (find(&mut comp, *a), find(&mut comp, *b));
            if ra != rb {
                comp.insert(ra, rb);
            }
        }
        let mut sizes: BTreeMap<usize, usize> = BTreeMap::new();
        for v in &keys {
            *sizes.entry(find(&mut comp, *v)).or_insert(0) += 1;
        }
        let with_edges = sizes.values().filter(|n| **n >= 2).count();
        if sizes.values().any(|n| *n > 16) || with_edges > 12 {
            ctx.c.inc("c18.canon-skipped-would-exceed-group-limits");
            return None;
        }
        let max_id = *keys.last().unwrap();
        let n2 = ctx.rng.range(maxdeg.max(1), 16);
        let cap2 = (max_id + 1 + 2 + ctx.rng.below(20)).max(4);
        let real_a = crate::rec::real_data(s.g.as_ref());
        let datas: BTreeMap<usize, Vec<u8>> =
            real_a.iter().filter_map(|(v, d)| d.clone().map(|d| (*v, d))).collect();
        let mut order = keys.clone();
        ctx.rng.shuffle(&mut order);
        let built = guarded(|| {
            let mut b = new_graph(n2, cap2);
            // detour: a pair on spare ids that lives, gets data, is read and collected
            let spare: Vec<usize> = (0..cap2).filter(|v| !keyset.contains(v)).take(2).collect();
            if spare.len() == 2 {
                b.add(spare[0]);
                b.add(spare[1]);
                b.bind(spare[0], spare[1], sodg::Label::Alpha(7));
                b.put(spare[1], &sodg::Hex::from_vec(vec![1, 2, 3, 4, 5, 6, 7, 8, 9, 10]));
                let _ = b.data(spare[1]);
            }
            for v in &order {
                b.add(*v);
                if let Some(d) = datas.get(v) {
                    // overwritten and re-read data while the vertex is still ungrouped (cannot collect)
                    b.put(*v, &sodg::Hex::from_vec(vec![0xEE; 11]));
                    let _ = b.data(*v);
                    b.put(*v, &sodg::Hex::from_vec(d.clone()));
                }
            }
            // edges in an order in which every component forms exactly one group
            let mut todo = edges.clone();
            let mut grouped: BTreeSet<usize> = BTreeSet::new();
            while !todo.is_empty() {
                let pick = todo
                    .iter()
                    .enumerate()
                    .filter(|(_, (a, _, t))| grouped.contains(a) || grouped.contains(t))
                    .map(|(i, _)| i)
                    .collect::<Vec<_>>();
                let i = if pick.is_empty() { 0 } else { pick[pick.len() / 2] };
                let (a, l, t) = todo.remove(i);
                b.bind(a, t, l);
                grouped.insert(a);
                grouped.insert(t);
            }
            // facts: did this build really reach the same abstract graph?
            let same_edges = keys.iter().all(|v| {
                let mut x = b.kids(*v);
                let mut y = s.g.kids(*v);
                x.sort();
                y.sort();
                x == y
            });
            let same = same_edges && b.keys() == keys && crate::rec::real_data(b.as_ref()) == real_a;
            (b.to_xml(), b.to_dot(), if same { b.keys() } else { vec![usize::MAX] })
        });
        let (x2, d2, k2) = match built {
            Ok(r) => r,
            Err(p) => {
                ctx.c.inc("c18.canon-twin-build-panicked");
                let _ = p;
                return None;
            }
        };
        if k2 != keys {
            ctx.c.inc("c18.canon-twin-build-did-not-reach-the-same-graph(skipped)");
            return None;
        }
        self.canon_checked += 1;
        ctx.c.inc("c18.canonicity-twins-compared");
        match x2 {
            Ok(x2) => {
                if x2 != xml {
                    return Some(format!(
                        "to_xml() of two graphs with the same vertices, edges and data differs (N={} cap={} vs N={n2} cap={cap2}): {}",
                        s.n,
                        s.cap,
                        crate::rec::first_diff(xml, &x2)
                    ));
                }
            }
            Err(e) => return Some(format!("to_xml() of the twin build failed: {e}")),
        }
        if d2 != dot {
            return Some(format!(
                "to_dot() of two graphs with the same vertices, edges and data differs (N={} cap={} vs N={n2} cap={cap2}): {}",
                s.n,
                s.cap,
                crate::rec::first_diff(dot, &d2)
            ));
        }
        None
    }
}

impl HistMonitor for C18 {
    fn after(&mut self, s: &mut Session, op: &Op, o: &mut Outcome, ctx: &mut Ctx) -> Option<String> {
        self.since += 1;
        let collected = matches!(op, Op::Data(_)) && o.keys_after.len() < o.keys_before.len();
        if self.since < 8 && !collected && o.panic.is_none() {
            return None;
        }
        self.since = 0;
        let canon = ctx.rng.chance(1, 3);
        self.check(s, ctx, canon)
    }
    fn finish(&mut self, s: &mut Session, ctx: &mut Ctx) -> Option<String> {
        self.check(s, ctx, true)
    }
    fn nontrivial(&self, _c: &HistStats) -> bool {
        self.qualified
    }
    fn examines_panic_itself(&self, op: &Op) -> bool {
        matches!(op, Op::Export)
    }
}

// ------------------------------------------------------------------------------------ C20

#[derive(Default)]
pub struct C20 {
    since: usize,
    pub qualified: bool,
    pub inspected: u64,
}

/// Parse inspect() output: returns edges grouped by the vertex they are listed under.
pub fn parse_inspect(v: usize, txt: &str) -> Result<BTreeMap<usize, Vec<(String, usize)>>, String> {
    let mut lines = txt.lines();
    let first = lines.next().ok_or("empty output")?;
    if first != format!("ν{v}") {
        return Err(format!("first line is {first:?}"));
    }
    let mut by: BTreeMap<usize, Vec<(String, usize)>> = BTreeMap::new();
    let mut stack: Vec<usize> = vec![v];
    let mut elided_depth: Option<usize> = None;
    for line in lines {
        let indent = line.len() - line.trim_start_matches(' ').len();
        if indent % 2 != 0 || indent < 2 {
            return Err(format!("odd indentation in {line:?}"));
        }
        let d = indent / 2; // depth of the edge line; its owner was opened at depth d-1
        let body = &line[indent..];
        let body = body.strip_prefix('.').ok_or(format!("line without '.': {line:?}"))?;
        let (lab, rest) = body.split_once(" ➞ ν").ok_or(format!("line without arrow: {line:?}"))?;
        let elided = rest.ends_with('…');
        let t: usize = rest.trim_end_matches('…').parse().map_err(|_| format!("bad target in {line:?}"))?;
        if d > stack.len() {
            return Err(format!("line {line:?} is deeper than its predecessor allows"));
        }
        if let Some(ed) = elided_depth {
            if d > ed {
                return Err(format!("line {line:?} is listed under an elided (…) vertex"));
            }
        }
        stack.truncate(d);
        let owner = stack[d - 1];
        by.entry(owner).or_default().push((lab.to_string(), t));
        stack.push(t);
        elided_depth = if elided { Some(d) } else { None };
    }
    Ok(by)
}

pub fn parse_debug(txt: &str) -> Result<Parsed, String> {
    let mut out = vec![];
    // entries: "ν{v} -> ⟦...⟧" possibly spanning lines; then "b{n}: {...}" lines
    let mut rest = txt;
    while !rest.is_empty() {
        let line_end = rest.find('\n').unwrap_or(rest.len());
        let head = &rest[..line_end];
        if head.starts_with('b') && head.contains(": {") {
            rest = rest.get(line_end + 1..).unwrap_or("");
            continue;
        }
        let Some(h) = rest.strip_prefix('ν') else {
            return Err(format!("unexpected text {:?}", &rest[..rest.len().min(40)]));
        };
        let (id, after) = h.split_once(" -> ⟦").ok_or("entry without ⟦")?;
        let id: usize = id.parse().map_err(|_| format!("bad id {id:?}"))?;
        let close = after.find('⟧').ok_or("entry without ⟧")?;
        let inner = &after[..close];
        let mut edges = vec![];
        let mut data = None;
        if !inner.is_empty() {
            for item in inner.split(", ") {
                if let Some(e) = item.strip_prefix("\n\t") {
                    let (lab, t) = e.split_once(" ➞ ν").ok_or(format!("bad edge item {item:?}"))?;
                    edges.push((lab.to_string(), t.parse().map_err(|_| format!("bad target {t:?}"))?));
                } else {
                    if data.is_some() {
                        return Err(format!("ν{id}: two data items"));
                    }
                    data = Some(parse_hex_text(item).ok_or(format!("ν{id}: item {item:?} is neither an edge nor hex data"))?);
                }
            }
        }
        out.push((id, edges, data));
        rest = &after[close + '⟧'.len_utf8()..];
        rest = rest.strip_prefix('\n').unwrap_or(rest);
    }
    Ok(out)
}

impl C20 {
    fn check(&mut self, s: &mut Session, ctx: &mut Ctx, all: bool) -> Option<String> {
        if !crate::rec::kids_match_stored_edges(s.g.as_ref()) {
            ctx.c.inc("c20.kids()-disagrees-with-the-stored-edges(no reference for edges, skipped)");
            return None;
        }
        let keys = s.g.keys();
        let real = crate::rec::real_data(s.g.as_ref());
        let keyset: BTreeSet<usize> = keys.iter().copied().collect();
        let mut kids: BTreeMap<usize, Vec<(sodg::Label, usize)>> = BTreeMap::new();
        for v in &keys {
            kids.insert(*v, s.g.kids(*v));
        }
        // Debug / Display
        for (name, txt) in [("Debug", guarded(|| s.g.debug())), ("Display", guarded(|| s.g.display()))] {
            let txt = match txt {
                Ok(t) => t,
                Err(p) => return Some(format!("{name} panicked: {p}")),
            };
            match parse_debug(&txt) {
                Ok(p) => {
                    let ids: Vec<usize> = p.iter().map(|x| x.0).collect();
                    let mut sorted = ids.clone();
                    sorted.sort_unstable();
                    if sorted != keys {
                        return Some(format!("{name} lists vertices {ids:?}, present are {keys:?}"));
                    }
                    for (id, edges, data) in &p {
                        let mut got = edges.clone();
                        let mut want: Vec<(String, usize)> = kids[id].iter().map(|(l, t)| (label_show(l), *t)).collect();
                        got.sort();
                        want.sort();
                        if got != want {
                            return Some(format!("{name}: ν{id} lists edges {got:?}, kids() says {want:?}"));
                        }
                        if let Some(rd) = real.get(id) {
                            if data != rd {
                                return Some(format!(
                                    "{name}: ν{id} shows data {:?}, the vertex holds {:?}",
                                    data.as_ref().map(|d| crate::ops::hex(d)),
                                    rd.as_ref().map(|d| crate::ops::hex(d))
                                ));
                            }
                        }
                    }
                }
                Err(e) => return Some(format!("{name} output cannot be read back: {e}")),
            }
            ctx.c.inc("c20.debug-texts-parsed");
        }
        // v_print
        for v in &keys {
            let vp = match guarded(|| s.g.v_print(*v)) {
                Ok(Ok(t)) => t,
                Ok(Err(e)) => return Some(format!("v_print({v}) returned Err: {e}")),
                Err(p) => return Some(format!("v_print({v}) panicked: {p}")),
            };
            let inner = vp
                .strip_prefix(&format!("ν{v}⟦"))
                .and_then(|x| x.strip_suffix('⟧'));
            let Some(inner) = inner else {
                return Some(format!("v_print({v}) = {vp:?} is not of the form ν{v}⟦…⟧"));
            };
            let (has, list) = match inner.strip_prefix("Δ, ") {
                Some(r) => (true, r),
                None => (false, inner),
            };
            let mut got: Vec<String> = list.split(", ").filter(|x| !x.is_empty()).map(str::to_string).collect();
            let mut want: Vec<String> = kids[v].iter().map(|(l, _)| label_show(l)).collect();
            got.sort();
            want.sort();
            if got != want {
                return Some(format!("v_print({v}) = {vp:?} lists labels {got:?}, kids() has {want:?}"));
            }
            if let Some(rd) = real.get(v) {
                if has != rd.is_some() {
                    return Some(format!(
                        "v_print({v}) = {vp:?} {} the data marker, but the vertex {}",
                        if has { "shows" } else { "lacks" },
                        if rd.is_some() { "has data" } else { "has no data" }
                    ));
                }
            }
            ctx.c.inc("c20.v_print-checked");
        }
        // inspect from every start vertex whose reachable part is present
        let mut starts = keys.clone();
        ctx.rng.shuffle(&mut starts);
        if !all {
            starts.truncate(4);
        }
        for v in starts {
            // vertices reachable from v through present vertices only; an edge into an absent id is a
            // dangling leaf (what inspect prints below it is not judged: the statement is silent there)
            let mut reach = BTreeSet::new();
            let mut todo = vec![v];
            let mut dangling = false;
            while let Some(x) = todo.pop() {
                if !keyset.contains(&x) {
                    dangling = true;
                    continue;
                }
                if reach.insert(x) {
                    for (_, t) in &kids[&x] {
                        todo.push(*t);
                    }
                }
            }
            if dangling {
                ctx.c.inc("c20.inspect-starts-with-dangling-edges");
            }
            if let Some(f) = &mut s.sink {
                use std::io::Write;
                let _ = writeln!(f, "# inspect({v})");
                let _ = f.flush();
            }
            let txt = match guarded(|| s.g.inspect(v)) {
                Ok(Ok(t)) => t,
                Ok(Err(e)) => return Some(format!("inspect({v}) returned Err: {e}")),
                Err(p) => return Some(format!("inspect({v}) panicked: {p}")),
            };
            self.inspected += 1;
            ctx.c.inc("c20.inspects-parsed");
            let total: usize = reach.iter().map(|u| kids[u].len()).sum();
            let nlines = txt.lines().count();
            if !dangling && nlines > 1 + total {
                return Some(format!(
                    "inspect({v}) printed {nlines} lines; the reachable part has only {total} edges (some edge is listed more than once)"
                ));
            }
            match parse_inspect(v, &txt) {
                Err(e) => return Some(format!("inspect({v}) output cannot be read back: {e}")),
                Ok(by) => {
                    for u in &reach {
                        let mut got = by.get(u).cloned().unwrap_or_default();
                        let mut want: Vec<(String, usize)> = kids[u].iter().map(|(l, t)| (label_show(l), *t)).collect();
                        got.sort();
                        want.sort();
                        if got != want {
                            return Some(format!(
                                "inspect({v}): under ν{u} the edges {got:?} are listed, kids({u}) has {want:?}"
                            ));
                        }
                    }
                    for u in by.keys() {
                        if !dangling && !reach.contains(u) {
                            return Some(format!("inspect({v}) lists edges under ν{u}, which is not reachable"));
                        }
                    }
                }
            }
            // non-trivial: a cycle and a diamond reachable
            let indeg2 = reach.iter().any(|t| reach.iter().map(|u| kids[u].iter().filter(|(_, x)| x == t).count()).sum::<usize>() >= 2);
            let cyc = txt.contains('…');
            if indeg2 && cyc && reach.len() >= 3 {
                self.qualified = true;
            }
        }
        None
    }
}

impl HistMonitor for C20 {
    fn after(&mut self, s: &mut Session, op: &Op, o: &mut Outcome, ctx: &mut Ctx) -> Option<String> {
        self.since += 1;
        let collected = matches!(op, Op::Data(_)) && o.keys_after.len() < o.keys_before.len();
        if self.since < 8 && !collected && o.panic.is_none() {
            return None;
        }
        self.since = 0;
        // after a panicking export: every start vertex, so that the panicking inspect() is found
        self.check(s, ctx, o.panic.is_some())
    }
    fn finish(&mut self, s: &mut Session, ctx: &mut Ctx) -> Option<String> {
        self.check(s, ctx, true)
    }
    fn nontrivial(&self, _c: &HistStats) -> bool {
        self.qualified
    }
    fn examines_panic_itself(&self, op: &Op) -> bool {
        matches!(op, Op::Export)
    }
}

#[allow(dead_code)]
fn _unused(_: &dyn Graph) {}
