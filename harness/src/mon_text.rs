//! Export / printer monitors C18, C20. (filled in below)
use crate::hist::{Ctx, HistMonitor, HistStats};
use crate::ops::Op;
use crate::rec::{Outcome, Session};
#[derive(Default)] pub struct C18;
impl HistMonitor for C18 {
    fn after(&mut self, _s: &mut Session, _op: &Op, _o: &Outcome, _c: &mut Ctx) -> Option<String> { None }
    fn nontrivial(&self, _c: &HistStats) -> bool { false }
}
#[derive(Default)] pub struct C20;
impl HistMonitor for C20 {
    fn after(&mut self, _s: &mut Session, _op: &Op, _o: &Outcome, _c: &mut Ctx) -> Option<String> { None }
    fn nontrivial(&self, _c: &HistStats) -> bool { false }
}
