//! Twin monitors: clone (C10) and save+load (C08). (filled in below)
use crate::hist::{Ctx, HistMonitor, HistStats};
use crate::ops::Op;
use crate::rec::{Outcome, Session};
pub struct C08;
impl C08 { pub fn new() -> Self { C08 } }
impl HistMonitor for C08 {
    fn after(&mut self, _s: &mut Session, _op: &Op, _o: &Outcome, _c: &mut Ctx) -> Option<String> { None }
    fn nontrivial(&self, _c: &HistStats) -> bool { false }
}
pub struct C10;
impl C10 { pub fn new() -> Self { C10 } }
impl HistMonitor for C10 {
    fn after(&mut self, _s: &mut Session, _op: &Op, _o: &Outcome, _c: &mut Ctx) -> Option<String> { None }
    fn nontrivial(&self, _c: &HistStats) -> bool { false }
}
