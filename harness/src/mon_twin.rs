//! Twin monitors: clone (C10) and save+load (C08). Model-free: the oracle is the other copy.
//! After the copy is made both graphs receive the same calls in lock-step; every return value and
//! the digest after every call must agree (differential continuation), through a final drain.

use crate::gen::{Gen, Profile};
use crate::hist::{Ctx, HistMonitor, HistStats};
use crate::ops::Op;
use crate::rec::{digest, exec_raw, first_diff, Outcome, Ret, Session, O_EDGES, O_INSPECT, O_KEYS, O_TEXT};
use crate::shim::Graph;
use sodg::VerifSnapshot;

const FULL: u8 = O_KEYS | O_EDGES | O_TEXT | O_INSPECT;
const LIGHT: u8 = O_KEYS | O_EDGES;

#[derive(Clone, Copy, PartialEq, Eq)]
enum Kind {
    Clone,
    Reload,
}

pub struct Twin {
    kind: Kind,
    twin: Option<Box<dyn Graph>>,
    /// For Reload: which of the two is the reloaded graph, and its allocator position as the
    /// statement prescribes it (restart from the lowest absent id).
    reloaded_is_main: bool,
    reloaded_pos: usize,
    /// Only the first next_id() after a reload is judged against "restart from the lowest absent id".
    reloaded_first_done: bool,
    /// Position of the original graph's allocator (from the hook, only to decide alignment).
    orig_pos: usize,
    pre_main_pos: usize,
    hook_twin_pos: Option<usize>,
    /// Frozen copies (never touched again) with their digest at copy time: independence.
    frozen: Vec<(Box<dyn Graph>, String, crate::model::Model)>,
    uniq: u64,
    // non-triviality
    qualified_copy: bool,
    collected_after_copy: bool,
    allocated_after_copy: bool,
    lockstep_calls: u64,
}

pub type C08 = Twin;
pub type C10 = Twin;

impl Twin {
    pub fn new() -> Self {
        Self::make(Kind::Reload)
    }
    pub fn new_clone() -> Self {
        Self::make(Kind::Clone)
    }
    fn make(kind: Kind) -> Self {
        Self {
            kind,
            twin: None,
            reloaded_is_main: false,
            reloaded_pos: 0,
            reloaded_first_done: false,
            orig_pos: 0,
            pre_main_pos: 0,
            hook_twin_pos: None,
            frozen: vec![],
            uniq: 0,
            qualified_copy: false,
            collected_after_copy: false,
            allocated_after_copy: false,
            lockstep_calls: 0,
        }
    }
    fn twin_name(&self) -> &'static str {
        match (self.kind, self.reloaded_is_main) {
            (Kind::Clone, _) => "other copy of the clone pair",
            (Kind::Reload, true) => "original graph",
            (Kind::Reload, false) => "reloaded graph",
        }
    }
    fn what(&self) -> &'static str {
        match self.kind {
            Kind::Clone => "clone",
            Kind::Reload => "reloaded graph",
        }
    }
}

fn snap_equal_mod_alloc(a: &VerifSnapshot, b: &VerifSnapshot, ignore_next: bool) -> Option<String> {
    if a.capacity != b.capacity {
        return Some(format!("capacity {} vs {}", a.capacity, b.capacity));
    }
    if a.slots != b.slots {
        for (x, y) in a.slots.iter().zip(b.slots.iter()) {
            if x != y {
                return Some(format!(
                    "slot ν{}: branch {}/{} persistence {}/{} inline {}/{} data {}/{} bytes, edges {}/{}",
                    x.id, x.branch, y.branch, x.persistence, y.persistence, x.data_inline, y.data_inline,
                    x.data.len(), y.data.len(), x.edges.len(), y.edges.len()
                ));
            }
        }
        return Some("slot lists differ in length".to_string());
    }
    if a.members != b.members {
        return Some("member lists differ".to_string());
    }
    if a.stores != b.stores {
        return Some("unread counters differ".to_string());
    }
    if !ignore_next && a.next_v != b.next_v {
        return Some(format!("allocator position {} vs {}", a.next_v, b.next_v));
    }
    None
}

impl HistMonitor for Twin {
    fn before(&mut self, s: &mut Session, op: &Op, _ctx: &mut Ctx) {
        self.pre_main_pos = s.m.pos;
        // for allocator-dependent calls the positions are read from the hook (facts), so that a
        // defect in the allocator itself cannot make this monitor mis-judge alignment
        if self.kind == Kind::Reload && matches!(op, Op::NextId | Op::Merge { .. } | Op::Script { .. }) {
            self.pre_main_pos = s.g.snapshot().next_v;
            if let Some(tw) = &self.twin {
                let p = tw.snapshot().next_v;
                if self.reloaded_is_main {
                    self.orig_pos = p;
                } else {
                    self.hook_twin_pos = Some(p);
                }
            }
        }
    }
    fn after(&mut self, s: &mut Session, op: &Op, o: &mut Outcome, ctx: &mut Ctx) -> Option<String> {
        let is_copy_op = matches!(
            (self.kind, op),
            (Kind::Clone, Op::Clone { .. }) | (Kind::Reload, Op::SaveLoad { .. })
        );
        let pre_reloaded_pos = self.reloaded_pos;
        // 1. lock-step: apply the op to the current twin and compare
        if let (Some(tw), false) = (&mut self.twin, is_copy_op) {
            let aligned = match self.kind {
                Kind::Clone => true,
                Kind::Reload => {
                    // allocators agree iff both would hand out the same id next
                    let keys = tw.keys();
                    let first_abs = |from: usize| (from..s.cap).find(|v| !keys.contains(v));
                    // (one of the two positions is the reloaded graph's, the other the original's;
                    //  s.m.pos is the main graph's, whichever that is)
                    let (pa, pb) = if self.reloaded_is_main {
                        // main is the reloaded graph (pre_main_pos), the twin the original (orig_pos)
                        (self.orig_pos, self.pre_main_pos)
                    } else {
                        (self.pre_main_pos, self.hook_twin_pos.take().unwrap_or(pre_reloaded_pos))
                    };
                    if matches!(op, Op::NextId) {
                        first_abs(pa) == first_abs(pb)
                    } else {
                        // compound calls allocate several times and may change the present set in
                        // between: only identical positions guarantee identical ids throughout
                        pa == pb
                    }
                }
            };
            let alloc_dep = match op {
                Op::NextId | Op::Merge { .. } => true,
                Op::Script { cmds, .. } => cmds.iter().any(|c| {
                    use crate::ops::{Cmd, Ident};
                    let v = |i: &Ident| matches!(i, Ident::Var(_));
                    match c {
                        Cmd::Add(i) | Cmd::Put(i, _) => v(i),
                        Cmd::Bind(a, b, _) => v(a) || v(b),
                    }
                }),
                _ => false,
            };
            // next_id() is only within the quantifier while an absent id at or above the position remains
            let twin_next_ok = {
                let keys = tw.keys();
                let tp = if self.kind == Kind::Clone {
                    s.m.pos.min(o.keys_before.len() + s.cap) // same allocator as main: legal iff main's was
                } else if self.reloaded_is_main {
                    self.orig_pos
                } else {
                    self.reloaded_pos
                };
                self.kind == Kind::Clone || (tp..s.cap).any(|v| !keys.contains(&v))
            };
            if matches!(op, Op::NextId) && !twin_next_ok {
                ctx.c.inc("twin.next_id-skipped-on-twin-outside-quantifier");
                if self.reloaded_is_main {
                    // the reloaded graph made its first allocation unobserved by the comparison
                    self.reloaded_first_done = true;
                    if let Ret::Id(id) = &o.ret {
                        self.reloaded_pos = id + 1;
                    }
                }
            } else if alloc_dep && !aligned && !matches!(op, Op::NextId) {
                // ids of new vertices would legitimately differ: end this twin probe here
                ctx.c.inc("twin.dropped-unaligned-allocator");
                self.twin = None;
            } else {
                let keys_before_twin = tw.keys();
                let r = exec_raw(tw, op, &s.workdir, &mut self.uniq, &ctx.labels);
                self.lockstep_calls += 1;
                ctx.c.inc("twin.lockstep-calls");
                let r = match r {
                    Ok(r) => r,
                    Err(p) => {
                        return Some(format!(
                            "{} panicked on the {} ({p}) but not on the other copy",
                            op.show(),
                            self.twin_name()
                        ))
                    }
                };
                // return values
                let main_ret = match (op, o.other.take()) {
                    (Op::Slice(_), Some(sl)) => Ret::Res(Ok(crate::rec::slice_signature(sl, &ctx.labels))),
                    (_, other) => {
                        o.other = other;
                        o.ret.clone()
                    }
                };
                if let Op::NextId = op {
                    if self.kind == Kind::Reload {
                        // the reloaded graph may restart from the lowest absent id (the one permitted
                        // difference) or carry on exactly like the original; judged at the first call only
                        let (rel_ret, rel_keys, orig_ret) = if self.reloaded_is_main {
                            (main_ret.clone(), o.keys_before.clone(), r.clone())
                        } else {
                            (r.clone(), keys_before_twin.clone(), main_ret.clone())
                        };
                        if let Ret::Id(id) = &rel_ret {
                            if !self.reloaded_first_done {
                                let lowest = (0..s.cap).find(|v| !rel_keys.contains(v));
                                if Some(*id) != lowest && rel_ret != orig_ret {
                                    return Some(format!(
                                        "next_id() on the reloaded graph returned {id}: neither the lowest absent id ({lowest:?}) nor what the original returns ({orig_ret:?})"
                                    ));
                                }
                                ctx.c.inc("twin.reloaded-next_id-checked");
                            }
                            self.reloaded_first_done = true;
                            self.reloaded_pos = id + 1;
                        }
                        if aligned && main_ret != r {
                            return Some(format!(
                                "next_id() returned {main_ret:?} on one copy and {r:?} on the other although both allocators are at the same point"
                            ));
                        }
                    } else if main_ret != r {
                        return Some(format!("next_id() returned {main_ret:?} on the original line and {r:?} on the clone line"));
                    }
                    self.allocated_after_copy = true;
                } else if main_ret != r {
                    return Some(format!(
                        "{} returned {} on one copy and {} on the {}",
                        op.show(),
                        short(&main_ret),
                        short(&r),
                        self.what()
                    ));
                }
                if matches!(op, Op::Merge { .. }) {
                    self.allocated_after_copy = true;
                }
                // allocator bookkeeping (positions only move through allocator results)
                if let (Op::NextId, Ret::Id(id)) = (op, &r) {
                    if self.reloaded_is_main {
                        self.orig_pos = self.orig_pos.max(id + 1);
                    }
                }
                for p in &o.prims {
                    if let (crate::model::Prim::NextId(id), false) = (p, matches!(op, Op::NextId)) {
                        self.reloaded_pos = self.reloaded_pos.max(id + 1);
                        self.orig_pos = self.orig_pos.max(id + 1);
                    }
                }
                if let Op::Data(_) = op {
                    if o.keys_after.len() < o.keys_before.len() {
                        self.collected_after_copy = true;
                    }
                }
                let a = digest(s.g.as_ref(), LIGHT, &ctx.labels);
                let b = digest(self.twin.as_ref().unwrap().as_ref(), LIGHT, &ctx.labels);
                if a != b {
                    return Some(format!(
                        "after {} the two copies differ: {}",
                        op.show(),
                        first_diff(&a, &b)
                    ));
                }
            }
        }
        // 2. a new copy was made by this op
        if is_copy_op {
            let Some(other) = &o.other else {
                if let Ret::Res(Err(e)) = &o.ret {
                    return Some(format!("save+load of a reachable graph failed: {e}"));
                }
                return None;
            };
            let a = digest(s.g.as_ref(), FULL, &ctx.labels);
            let b = digest(other.as_ref(), FULL, &ctx.labels);
            if a != b {
                return Some(format!("right after {}: the copy differs from the source: {}", op.show(), first_diff(&a, &b)));
            }
            if self.kind == Kind::Reload && s.cap >= 21_846 {
                ctx.c.inc("twin.reloads-of-images-over-1MiB(capacity>=21846)");
            }
            // complete internal state (trigger + evidence of "same read/unread status, same encoding")
            let (sa, sb) = (s.g.snapshot(), other.snapshot());
            if let Some(d) = snap_equal_mod_alloc(&sa, &sb, self.kind == Kind::Reload) {
                ctx.c.inc("twin.snapshot-differs");
                // latent: make it observable with an immediate lock-step drain below (finish does it);
                // remember the description for the report
                ctx.c.inc(&format!("twin.snapshot-diff.{}", d.split(':').next().unwrap_or("x").replace(' ', "-")));
            } else {
                ctx.c.inc("twin.snapshot-equal");
            }
            // non-triviality of the copy point
            let has_unread_heap_in_group = sa.slots.iter().any(|x| x.branch >= 2 && x.persistence == 1 && !x.data_inline);
            let has_history_slot = sa.slots.iter().any(|x| x.branch == 0 && (!x.edges.is_empty() || x.persistence != 0));
            let lowest_absent = (0..s.cap).find(|v| !o.keys_after.contains(v));
            let pos_main = s.m.pos;
            match self.kind {
                Kind::Reload => {
                    if has_unread_heap_in_group && has_history_slot {
                        self.qualified_copy = true;
                    }
                }
                Kind::Clone => {
                    if has_unread_heap_in_group && lowest_absent.is_some_and(|l| pos_main > l) {
                        self.qualified_copy = true;
                    }
                }
            }
            // independence: keep a frozen copy of the one that is continued... made by the same mechanism
            if self.frozen.len() < 2 {
                let frozen: Option<Box<dyn Graph>> = match self.kind {
                    Kind::Clone => crate::rec::guarded(|| s.g.clone_box()).ok(),
                    Kind::Reload => {
                        // a second image of the same graph, loaded and never touched again
                        // (made by save()+load() only: clone() is C10's business, not this monitor's)
                        self.uniq += 1;
                        let path = s.workdir.join(format!("fz-{}-{}.sodg", std::process::id(), self.uniq));
                        let n = s.n;
                        let r = crate::rec::guarded(|| s.g.save(&path).and_then(|_| crate::shim::load_graph(n, &path)));
                        let _ = std::fs::remove_file(&path);
                        match r {
                            Ok(Ok(g)) => Some(g),
                            _ => None,
                        }
                    }
                };
                if let Some(f) = frozen {
                    let d = digest(f.as_ref(), FULL, &ctx.labels);
                    if d != a {
                        return Some(format!("a second copy taken at the same point differs: {}", first_diff(&a, &d)));
                    }
                    self.frozen.push((f, d, s.m.clone()));
                }
            }
            // the copy not continued becomes the twin for the rest of the history
            let swap = matches!(op, Op::Clone { swap: true } | Op::SaveLoad { swap: true });
            self.reloaded_is_main = swap;
            self.reloaded_pos = 0;
            self.reloaded_first_done = false;
            self.orig_pos = sa.next_v.max(sb.next_v);
            self.twin = o.other.take();
        }
        None
    }

    fn finish(&mut self, s: &mut Session, ctx: &mut Ctx) -> Option<String> {
        // lock-step drain: which vertices get collected, and when, must agree to the end
        if self.twin.is_some() {
            let mut order: Vec<usize> =
                s.m.verts.iter().filter(|(_, x)| x.data.is_some()).map(|(v, _)| *v).collect();
            ctx.rng.shuffle(&mut order);
            let mut twice = order.clone();
            twice.extend(order.iter().copied());
            for v in twice {
                if !s.g.keys().contains(&v) {
                    continue;
                }
                let op = Op::Data(v);
                let o = s.step(&op);
                if o.panic.is_some() {
                    return None;
                }
                let tw = self.twin.as_mut().unwrap();
                let r = exec_raw(tw, &op, &s.workdir, &mut self.uniq, &ctx.labels);
                ctx.c.inc("twin.drain-reads");
                match r {
                    Err(p) => return Some(format!("drain: data({v}) panicked on the {} ({p}) only", self.what())),
                    Ok(r) => {
                        if r != o.ret {
                            return Some(format!(
                                "drain: data({v}) returned {} on one copy and {} on the {}",
                                short(&o.ret),
                                short(&r),
                                self.what()
                            ));
                        }
                    }
                }
                if o.keys_after.len() < o.keys_before.len() {
                    self.collected_after_copy = true;
                }
                let a = digest(s.g.as_ref(), LIGHT, &ctx.labels);
                let b = digest(self.twin.as_ref().unwrap().as_ref(), LIGHT, &ctx.labels);
                if a != b {
                    return Some(format!("drain: after data({v}) the two copies differ: {}", first_diff(&a, &b)));
                }
                if s.g.keys() != s.m.keys() {
                    let snap = s.g.snapshot();
                    s.m.resync(&snap);
                }
            }
            let a = digest(s.g.as_ref(), FULL, &ctx.labels);
            let b = digest(self.twin.as_ref().unwrap().as_ref(), FULL, &ctx.labels);
            if a != b && (self.kind == Kind::Clone) {
                return Some(format!("at the end the two copies print differently: {}", first_diff(&a, &b)));
            }
        }
        // independence: frozen copies must not have moved while the others were mutated
        for (f, d, _) in &self.frozen {
            let now = digest(f.as_ref(), FULL, &ctx.labels);
            ctx.c.inc("twin.frozen-copies-checked");
            if now != *d {
                return Some(format!(
                    "a copy that was never touched changed while the other graph was mutated: {}",
                    first_diff(d, &now)
                ));
            }
        }
        // and the other direction: mutate a frozen copy heavily, the graph under test must not move
        if let Some((f, _, fm)) = self.frozen.pop() {
            let before = digest(s.g.as_ref(), FULL, &ctx.labels);
            let mut f = f;
            let mut gm = fm;
            let mut gen = Gen::new(ctx.rng.next(), Profile::Classic, s.n, s.cap);
            gen.labels = if ctx.labels.is_empty() { gen.labels } else { ctx.labels.clone() };
            for _ in 0..40 {
                let op = gen.next_op(&gm);
                let r = exec_raw(&mut f, &op, &s.workdir, &mut self.uniq, &ctx.labels);
                ctx.c.inc("twin.independence-mutations");
                match (&op, r) {
                    (_, Err(_)) => break,
                    (Op::Add(v), _) => {
                        gm.add(*v);
                    }
                    (Op::Bind(a, b, l), _) => {
                        gm.bind(*a, *b, *l);
                    }
                    (Op::Put(v, d), _) => gm.put(*v, &d.bytes()),
                    (Op::Data(v), _) => {
                        gm.data(*v);
                    }
                    (Op::NextId, Ok(Ret::Id(id))) => gm.adopt_next_id(id),
                    _ => {}
                }
                if f.keys() != gm.keys() {
                    break; // not this monitor's business
                }
            }
            let after = digest(s.g.as_ref(), FULL, &ctx.labels);
            if before != after {
                return Some(format!(
                    "mutating a copy changed the graph it was copied from: {}",
                    first_diff(&before, &after)
                ));
            }
        }
        ctx.c.add("twin.lockstep-calls-total", 0);
        None
    }

    fn nontrivial(&self, _st: &HistStats) -> bool {
        match self.kind {
            Kind::Reload => self.qualified_copy && self.collected_after_copy,
            Kind::Clone => self.qualified_copy && self.collected_after_copy && self.allocated_after_copy,
        }
    }
}

fn short(r: &Ret) -> String {
    let s = format!("{r:?}");
    if s.chars().count() > 160 {
        format!("{}…", s.chars().take(160).collect::<String>())
    } else {
        s
    }
}
