//! The history language: operations a workload can apply to a graph, and their text form
//! (used for replay files, samples in the evidence and hashing of histories).

use sodg::{Hex, Label};

#[derive(Clone, Debug, PartialEq, Eq)]
pub enum HexSpec {
    /// Built by `Hex::from_vec` (inline if <= 8 bytes, heap otherwise).
    Canon(Vec<u8>),
    /// `Hex::Vector` directly (heap representation of any length).
    Vector(Vec<u8>),
    /// `Hex::Bytes(array, len)` directly, padding may be non-zero.
    Bytes([u8; 8], usize),
    /// Produced by another API call: `from_vec(prefix ++ bytes).tail(prefix)`.
    Tail(usize, Vec<u8>),
    /// `Hex::Vector(bytes[..split]).concat(&from_slice(bytes[split..]))`.
    Cat(usize, Vec<u8>),
    /// `Hex::from_str(<printed form of the bytes>)`.
    Parsed(Vec<u8>),
}

impl HexSpec {
    pub fn to_hex(&self) -> Hex {
        match self {
            HexSpec::Canon(v) => Hex::from_vec(v.clone()),
            HexSpec::Vector(v) => Hex::Vector(v.clone()),
            HexSpec::Bytes(a, l) => Hex::Bytes(*a, *l),
            HexSpec::Tail(k, v) => {
                let mut full: Vec<u8> = (0..*k).map(|i| 0xC0 + i as u8).collect();
                full.extend_from_slice(v);
                Hex::from_vec(full).tail(*k)
            }
            HexSpec::Cat(k, v) => Hex::Vector(v[..*k].to_vec()).concat(&Hex::from_slice(&v[*k..])),
            HexSpec::Parsed(v) => {
                use std::str::FromStr;
                let txt = if v.is_empty() { "--".to_string() } else { v.iter().map(|b| format!("{b:02X}")).collect::<Vec<_>>().join("-") };
                Hex::from_str(&txt).expect("harness: printed hex must parse")
            }
        }
    }
    pub fn bytes(&self) -> Vec<u8> {
        match self {
            HexSpec::Canon(v) | HexSpec::Vector(v) | HexSpec::Tail(_, v) | HexSpec::Cat(_, v) | HexSpec::Parsed(v) => v.clone(),
            HexSpec::Bytes(a, l) => a[..*l].to_vec(),
        }
    }
    pub fn text(&self) -> String {
        match self {
            HexSpec::Canon(v) => format!("C:{}", hex(v)),
            HexSpec::Vector(v) => format!("V:{}", hex(v)),
            HexSpec::Bytes(a, l) => format!("B:{}:{}", hex(a), l),
            HexSpec::Tail(k, v) => format!("T:{k}:{}", hex(v)),
            HexSpec::Cat(k, v) => format!("K:{k}:{}", hex(v)),
            HexSpec::Parsed(v) => format!("P:{}", hex(v)),
        }
    }
    pub fn parse(s: &str) -> Option<Self> {
        let (k, rest) = s.split_once(':')?;
        match k {
            "C" => Some(HexSpec::Canon(unhex(rest)?)),
            "V" => Some(HexSpec::Vector(unhex(rest)?)),
            "T" => {
                let (k, h) = rest.split_once(':')?;
                Some(HexSpec::Tail(k.parse().ok()?, unhex(h)?))
            }
            "K" => {
                let (k, h) = rest.split_once(':')?;
                Some(HexSpec::Cat(k.parse().ok()?, unhex(h)?))
            }
            "P" => Some(HexSpec::Parsed(unhex(rest)?)),
            "B" => {
                let (h, l) = rest.split_once(':')?;
                let v = unhex(h)?;
                if v.len() != 8 {
                    return None;
                }
                let mut a = [0u8; 8];
                a.copy_from_slice(&v);
                Some(HexSpec::Bytes(a, l.parse().ok()?))
            }
            _ => None,
        }
    }
}

pub fn hex(v: &[u8]) -> String {
    v.iter().map(|b| format!("{b:02x}")).collect()
}
pub fn unhex(s: &str) -> Option<Vec<u8>> {
    if s.len() % 2 != 0 {
        return None;
    }
    (0..s.len())
        .step_by(2)
        .map(|i| u8::from_str_radix(s.get(i..i + 2)?, 16).ok())
        .collect()
}

pub fn label_text(l: &Label) -> String {
    match l {
        Label::Alpha(n) => format!("A{n}"),
        Label::Greek(c) => format!("G{:x}", *c as u32),
        Label::Str(a) => format!(
            "S{}",
            a.iter().map(|c| format!("{:x}", *c as u32)).collect::<Vec<_>>().join(".")
        ),
    }
}
pub fn parse_label(s: &str) -> Option<Label> {
    let (k, rest) = s.split_at(1);
    match k {
        "A" => Some(Label::Alpha(rest.parse().ok()?)),
        "G" => Some(Label::Greek(char::from_u32(u32::from_str_radix(rest, 16).ok()?)?)),
        "S" => {
            let cs: Option<Vec<char>> = rest
                .split('.')
                .map(|x| char::from_u32(u32::from_str_radix(x, 16).ok()?))
                .collect();
            let cs = cs?;
            if cs.len() != 8 {
                return None;
            }
            let mut a = [' '; 8];
            a.copy_from_slice(&cs);
            Some(Label::Str(a))
        }
        _ => None,
    }
}
/// Human-readable label (what the library prints).
pub fn label_show(l: &Label) -> String {
    format!("{l}")
}
pub fn str_label(s: &str) -> Label {
    let mut a = [' '; 8];
    for (i, c) in s.chars().take(8).enumerate() {
        a[i] = c;
    }
    Label::Str(a)
}

#[derive(Clone, Debug, PartialEq, Eq)]
pub enum Ident {
    Lit(usize),
    Var(String),
}
#[derive(Clone, Debug, PartialEq, Eq)]
pub enum Cmd {
    Add(Ident),
    Bind(Ident, Ident, String),
    Put(Ident, Vec<u8>),
}

#[derive(Clone, Debug, PartialEq)]
pub enum Op {
    Add(usize),
    Bind(usize, usize, Label),
    Put(usize, HexSpec),
    Data(usize),
    Kid(usize, Label),
    Kids(usize),
    NextId,
    /// Clone the graph; continue on the clone if `swap`, else on the original.
    Clone { swap: bool },
    /// Save to a file and load it back; continue on the reloaded graph if `swap`.
    SaveLoad { swap: bool },
    Slice(usize),
    /// Merge a right graph, built by the `h` ops (Add/Bind/Put only) on a fresh graph of the
    /// same N and capacity, into the graph under test.
    Merge { h: Vec<Op>, left: usize, right: usize },
    /// Deploy a script; `cmds` is the AST the text was rendered from (None: malformed on purpose).
    Script { text: String, cmds: Vec<Cmd>, fault_at: Option<usize> },
    /// All read-only printers (xml, dot, debug, display, inspect, v_print).
    Export,
}

impl Op {
    pub fn kind(&self) -> &'static str {
        match self {
            Op::Add(_) => "add",
            Op::Bind(..) => "bind",
            Op::Put(..) => "put",
            Op::Data(_) => "data",
            Op::Kid(..) => "kid",
            Op::Kids(_) => "kids",
            Op::NextId => "next_id",
            Op::Clone { .. } => "clone",
            Op::SaveLoad { .. } => "saveload",
            Op::Slice(_) => "slice",
            Op::Merge { .. } => "merge",
            Op::Script { .. } => "script",
            Op::Export => "export",
        }
    }

    pub fn text(&self) -> String {
        match self {
            Op::Add(v) => format!("add {v}"),
            Op::Bind(a, b, l) => format!("bind {a} {b} {}", label_text(l)),
            Op::Put(v, d) => format!("put {v} {}", d.text()),
            Op::Data(v) => format!("data {v}"),
            Op::Kid(v, l) => format!("kid {v} {}", label_text(l)),
            Op::Kids(v) => format!("kids {v}"),
            Op::NextId => "next_id".to_string(),
            Op::Clone { swap } => format!("clone {}", if *swap { "swap" } else { "keep" }),
            Op::SaveLoad { swap } => format!("saveload {}", if *swap { "swap" } else { "keep" }),
            Op::Slice(v) => format!("slice {v}"),
            Op::Merge { h, left, right } => format!(
                "merge {left} {right} [{}]",
                h.iter().map(Op::text).collect::<Vec<_>>().join("; ")
            ),
            Op::Script { text, cmds, fault_at } => format!(
                "script {} {} [{}]",
                hex(text.as_bytes()),
                fault_at.map_or("-".to_string(), |k| k.to_string()),
                cmds.iter().map(cmd_text).collect::<Vec<_>>().join("; ")
            ),
            Op::Export => "export".to_string(),
        }
    }

    /// Readable form for samples in the evidence.
    pub fn show(&self) -> String {
        match self {
            Op::Bind(a, b, l) => format!("bind({a},{b},{})", label_show(l)),
            Op::Put(v, d) => format!("put({v},{})", d.text()),
            Op::Kid(v, l) => format!("kid({v},{})", label_show(l)),
            Op::Merge { h, left, right } => format!(
                "merge(h=[{}],{left},{right})",
                h.iter().map(Op::show).collect::<Vec<_>>().join(" ")
            ),
            Op::Script { text, .. } => format!("script({text:?})"),
            Op::Add(v) => format!("add({v})"),
            Op::Data(v) => format!("data({v})"),
            Op::Kids(v) => format!("kids({v})"),
            Op::Slice(v) => format!("slice({v})"),
            other => other.text(),
        }
    }

    pub fn parse(line: &str) -> Option<Op> {
        let line = line.trim();
        let (head, rest) = line.split_once(' ').unwrap_or((line, ""));
        let rest = rest.trim();
        let mut it = rest.split_whitespace();
        Some(match head {
            "add" => Op::Add(it.next()?.parse().ok()?),
            "bind" => Op::Bind(
                it.next()?.parse().ok()?,
                it.next()?.parse().ok()?,
                parse_label(it.next()?)?,
            ),
            "put" => Op::Put(it.next()?.parse().ok()?, HexSpec::parse(it.next()?)?),
            "data" => Op::Data(it.next()?.parse().ok()?),
            "kid" => Op::Kid(it.next()?.parse().ok()?, parse_label(it.next()?)?),
            "kids" => Op::Kids(it.next()?.parse().ok()?),
            "next_id" => Op::NextId,
            "clone" => Op::Clone { swap: it.next()? == "swap" },
            "saveload" => Op::SaveLoad { swap: it.next()? == "swap" },
            "slice" => Op::Slice(it.next()?.parse().ok()?),
            "export" => Op::Export,
            "merge" => {
                let left = it.next()?.parse().ok()?;
                let right = it.next()?.parse().ok()?;
                let lb = rest.find('[')?;
                let rb = rest.rfind(']')?;
                let inner = &rest[lb + 1..rb];
                let mut h = vec![];
                for part in inner.split(';') {
                    if part.trim().is_empty() {
                        continue;
                    }
                    h.push(Op::parse(part)?);
                }
                Op::Merge { h, left, right }
            }
            "script" => {
                let text = String::from_utf8(unhex(it.next()?)?).ok()?;
                let f = it.next()?;
                let fault_at = if f == "-" { None } else { Some(f.parse().ok()?) };
                let lb = rest.find('[')?;
                let rb = rest.rfind(']')?;
                let inner = &rest[lb + 1..rb];
                let mut cmds = vec![];
                for part in inner.split(';') {
                    if part.trim().is_empty() {
                        continue;
                    }
                    cmds.push(parse_cmd(part.trim())?);
                }
                Op::Script { text, cmds, fault_at }
            }
            _ => return None,
        })
    }
}

fn ident_text(i: &Ident) -> String {
    match i {
        Ident::Lit(v) => format!("L{v}"),
        Ident::Var(s) => format!("V{}", hex(s.as_bytes())),
    }
}
fn parse_ident(s: &str) -> Option<Ident> {
    let (k, r) = s.split_at(1);
    match k {
        "L" => Some(Ident::Lit(r.parse().ok()?)),
        "V" => Some(Ident::Var(String::from_utf8(unhex(r)?).ok()?)),
        _ => None,
    }
}
pub fn cmd_text(c: &Cmd) -> String {
    match c {
        Cmd::Add(i) => format!("ADD {}", ident_text(i)),
        Cmd::Bind(a, b, l) => {
            format!("BIND {} {} {}", ident_text(a), ident_text(b), hex(l.as_bytes()))
        }
        Cmd::Put(i, d) => format!("PUT {} x{}", ident_text(i), hex(d)),
    }
}
fn parse_cmd(s: &str) -> Option<Cmd> {
    let mut it = s.split_whitespace();
    Some(match it.next()? {
        "ADD" => Cmd::Add(parse_ident(it.next()?)?),
        "BIND" => Cmd::Bind(
            parse_ident(it.next()?)?,
            parse_ident(it.next()?)?,
            String::from_utf8(unhex(it.next()?)?).ok()?,
        ),
        "PUT" => Cmd::Put(parse_ident(it.next()?)?, unhex(it.next()?.strip_prefix('x')?)?),
        _ => return None,
    })
}

pub fn history_text(ops: &[Op]) -> String {
    ops.iter().map(Op::text).collect::<Vec<_>>().join("\n")
}
pub fn history_show(ops: &[Op], max: usize) -> String {
    let mut s: Vec<String> = ops.iter().take(max).map(Op::show).collect();
    if ops.len() > max {
        s.push(format!("… (+{} more)", ops.len() - max));
    }
    s.join(" ")
}

/// The documented label grammar (C17), independent of the implementation's parser:
/// `α` + canonical decimal index, or one character, or 2..=8 non-space characters.
pub fn spec_label(t: &str) -> Option<Label> {
    let cs: Vec<char> = t.chars().collect();
    if cs.is_empty() || cs.iter().any(|c| c.is_whitespace()) {
        return None;
    }
    if cs[0] == 'α' {
        let tail: String = cs[1..].iter().collect();
        if tail.is_empty() || !tail.chars().all(|c| c.is_ascii_digit()) {
            return None;
        }
        if tail.len() > 1 && tail.starts_with('0') {
            return None;
        }
        return tail.parse::<usize>().ok().map(Label::Alpha);
    }
    if cs.len() == 1 {
        return Some(Label::Greek(cs[0]));
    }
    if cs.len() <= 8 {
        Some(str_label(t))
    } else {
        None
    }
}

/// How a label is written according to the documented grammar, independent of the library's
/// printer: one character, `α` + decimal index, or the text without its padding blanks.
pub fn spec_show(l: &Label) -> String {
    match l {
        Label::Greek(c) => c.to_string(),
        Label::Alpha(n) => format!("α{n}"),
        Label::Str(a) => a.iter().filter(|c| **c != ' ').collect(),
    }
}

/// Capacity of the right graph of a merge: the capacity of the left one, or more if the ops that
/// build it use ids at or beyond it (a right graph need not have the capacity of the left one).
pub fn h_capacity(cap: usize, h: &[Op]) -> usize {
    let mut m = cap;
    for o in h {
        let top = match o {
            Op::Add(v) | Op::Put(v, _) | Op::Data(v) | Op::Slice(v) => *v,
            Op::Bind(a, b, _) => (*a).max(*b),
            _ => 0,
        };
        m = m.max(top + 1);
    }
    m
}
