//! C19: behaviour is deterministic and independent of N and capacity. The same history is
//! executed several times — again in this process, in a second process (fresh hash seeds, other
//! address-space layout) and under other configurations — and the complete observation traces
//! (every return value incl. kids() order and allocated ids, digests of all queries) are compared.

use crate::gen::{pick_config, Gen, Profile};
use crate::json::J;
use crate::ops::{history_show, history_text, Op};
use crate::rec::{digest, exec_raw, Ret, Session, O_EDGES, O_INSPECT, O_KEYS, O_TEXT};
use crate::rng::{mix, Fnv, Rng};
use crate::shard::{write_replay, ShardCfg, ShardOut, ViolRec};
use crate::shim::{new_graph, Graph};
use std::io::Write;

const FULL: u8 = O_KEYS | O_EDGES | O_TEXT | O_INSPECT;
const LIGHT: u8 = O_KEYS | O_EDGES;

/// Execute a fixed history on a fresh graph of the given configuration; returns the prefix hash
/// after every call (None entries never occur; a panic ends the trace with a marker).
pub fn trace(n: usize, cap: usize, ops: &[Op], work: &std::path::Path, labels: &[sodg::Label]) -> Vec<u64> {
    let mut g: Box<dyn Graph> = new_graph(n, cap);
    let mut uniq = 0u64;
    let mut f = Fnv::new();
    let mut out = Vec::with_capacity(ops.len());
    for (i, op) in ops.iter().enumerate() {
        let r = exec_raw(&mut g, op, work, &mut uniq, labels);
        match r {
            Ok(r) => {
                let txt = match &r {
                    Ret::Texts(t) => format!("{t:?}"),
                    other => format!("{other:?}"),
                };
                f.write_str(&txt);
            }
            Err(p) => {
                // panic messages may carry paths; only the fact is part of the trace
                let _ = p;
                f.write_str("PANIC");
                out.push(f.0);
                break;
            }
        }
        let lv = if i % 16 == 15 || i + 1 == ops.len() { FULL } else { LIGHT };
        match crate::rec::guarded(|| digest(g.as_ref(), lv, labels)) {
            Ok(d) => f.write_str(&d),
            Err(_) => f.write_str("PANIC-IN-QUERY"),
        }
        out.push(f.0);
    }
    out
}

fn first_mismatch(a: &[u64], b: &[u64]) -> Option<usize> {
    for i in 0..a.len().max(b.len()) {
        if a.get(i) != b.get(i) {
            return Some(i);
        }
    }
    None
}

struct Pending {
    n: usize,
    cap: usize,
    ops: Vec<Op>,
    last: u64,
    len: usize,
}

pub fn run_c19(cfg: &ShardCfg, out: &mut ShardOut) {
    let other_cfgs = if cfg.thorough { 8 } else { 4 };
    let mut batch: Vec<Pending> = vec![];
    for j in 0..cfg.count {
        if out.out_of_time(cfg) {
            out.counters.inc("stopped-by-budget");
            break;
        }
        let seed = mix(&[cfg.seed, cfg.shard, j as u64, 19]);
        let mut rng = Rng::new(seed);
        let (n0, mut cap0) = pick_config(&mut rng);
        if cap0 > 100 {
            cap0 = rng.range(8, 100);
        }
        let profile = *rng.pick(&[Profile::Mixed, Profile::Mixed, Profile::Mixed, Profile::Cross, Profile::ReAdd, Profile::Labels]);
        let mut gen = Gen::new(rng.next(), profile, n0, cap0);
        let len = rng.range(15, 120);
        // generate by running once (the generator needs the model, the model adopts observed ids)
        let mut s = Session::new(n0, cap0, &cfg.work);
        let mut big_merge = false;
        let mut big_slice = false;
        let mut cut = false;
        let mut panicked = false;
        for _ in 0..len {
            let op = gen.next_op(&s.m);
            let o = s.step(&op);
            if o.panic.is_some() {
                // a legal call that panics in this configuration: keep it as the last call of the history —
                // if other configurations (or a second run) do not panic there, the answers differ
                panicked = true;
                break;
            }
            match &op {
                Op::Merge { .. } => {
                    if o.keys_after.len() >= o.keys_before.len() + 2 {
                        big_merge = true;
                    }
                }
                Op::Slice(_) => {
                    if o.other.as_ref().is_some_and(|g| g.len() >= 3) {
                        big_slice = true;
                    }
                }
                Op::NextId => {
                    if let Ret::Id(id) = o.ret {
                        gen.note_next_id(id);
                    }
                }
                _ => {}
            }
            match crate::rec::guarded(|| s.g.keys()) {
                Ok(k) => {
                    if k != s.m.keys() {
                        let snap = s.g.snapshot();
                        s.m.resync(&snap);
                    }
                }
                Err(_) => {
                    cut = true;
                    break;
                }
            }
        }
        if cut {
            out.counters.inc("history.cut-by-foreign-panic");
            continue;
        }
        if panicked {
            out.counters.inc("c19.history-ends-with-a-panicking-call");
        }
        let ops = std::mem::take(&mut s.ops);
        let labels = crate::hist::labels_of(&ops);
        out.evaluations += 1;
        out.calls += ops.len() as u64;
        out.configs.insert((n0, cap0));
        let t0 = trace(n0, cap0, &ops, &cfg.work, &labels);
        // 1. again in the same process
        let t1 = trace(n0, cap0, &ops, &cfg.work, &labels);
        out.counters.inc("c19.replays-same-process");
        let mut bad: Option<String> = None;
        if let Some(i) = first_mismatch(&t0, &t1) {
            bad = Some(format!(
                "two executions of the same history in one process differ from call #{i} ({}) on",
                ops.get(i).map(Op::show).unwrap_or_default()
            ));
        }
        // 2. other configurations that accommodate the history
        let mut distinct_cfgs = std::collections::BTreeSet::new();
        if bad.is_none() {
            for _ in 0..other_cfgs {
                let n2 = rng.range(n0, 16);
                let cap2 = match rng.below(4) {
                    0 => cap0,
                    1 => cap0 + 1,
                    2 => rng.range(cap0, 256),
                    _ => 256,
                };
                if (n2, cap2) == (n0, cap0) {
                    continue;
                }
                distinct_cfgs.insert((n2, cap2));
                out.configs.insert((n2, cap2));
                let t2 = trace(n2, cap2, &ops, &cfg.work, &labels);
                out.counters.inc("c19.replays-other-configuration");
                if let Some(i) = first_mismatch(&t0, &t2) {
                    bad = Some(format!(
                        "Sodg<{n0}>::empty({cap0}) and Sodg<{n2}>::empty({cap2}) answer differently from call #{i} ({}) on",
                        ops.get(i).map(Op::show).unwrap_or_default()
                    ));
                    break;
                }
            }
        }
        if let Some(msg) = bad {
            let p = write_replay(
                cfg,
                &j.to_string(),
                &[("n", n0.to_string()), ("cap", cap0.to_string()), ("message", msg.clone())],
                &history_text(&ops),
            );
            out.violations.push(ViolRec { message: format!("{msg} [N={n0} cap={cap0}]"), replay: p, signature: "C19".to_string() });
            return;
        }
        if (big_merge || big_slice) && distinct_cfgs.len() >= 3 {
            out.nontrivial.insert(crate::hist::ops_hash(n0, cap0, &ops));
            if out.samples.len() < 3 {
                out.samples.push(
                    J::obj()
                        .with("N", J::i(n0))
                        .with("cap", J::i(cap0))
                        .with("other_configurations", J::Arr(distinct_cfgs.iter().map(|(a, b)| J::Arr(vec![J::i(*a), J::i(*b)])).collect()))
                        .with("history", J::s(&history_show(&ops, 40))),
                );
            }
        }
        batch.push(Pending { n: n0, cap: cap0, last: *t0.last().unwrap_or(&0), len: t0.len(), ops });
        if batch.len() >= 200 {
            if let Some(v) = second_process(cfg, out, &mut batch) {
                out.violations.push(v);
                return;
            }
        }
    }
    if let Some(v) = second_process(cfg, out, &mut batch) {
        out.violations.push(v);
    }
}

/// Replay the batch in a fresh process (new RandomState keys, new address layout) and compare.
fn second_process(cfg: &ShardCfg, out: &mut ShardOut, batch: &mut Vec<Pending>) -> Option<ViolRec> {
    if batch.is_empty() {
        return None;
    }
    let file = cfg.work.join(format!("c19-batch-{}-{}.txt", std::process::id(), cfg.shard));
    {
        let mut f = std::fs::File::create(&file).ok()?;
        for p in batch.iter() {
            let _ = writeln!(f, "history {} {}", p.n, p.cap);
            let _ = writeln!(f, "{}", history_text(&p.ops));
            let _ = writeln!(f, "end");
        }
    }
    let exe = std::env::current_exe().ok()?;
    let res = std::process::Command::new(exe).arg("trace").arg(&file).arg(&cfg.work).output();
    let _ = std::fs::remove_file(&file);
    let Ok(res) = res else {
        out.inconclusive = Some("could not start the second process".to_string());
        batch.clear();
        return None;
    };
    let text = String::from_utf8_lossy(&res.stdout);
    let lines: Vec<&str> = text.lines().collect();
    if !res.status.success() || lines.len() != batch.len() {
        out.inconclusive = Some(format!(
            "second process failed (status {:?}, {} of {} histories): {}",
            res.status.code(),
            lines.len(),
            batch.len(),
            String::from_utf8_lossy(&res.stderr).chars().take(300).collect::<String>()
        ));
        batch.clear();
        return None;
    }
    let mut viol = None;
    for (k, (p, line)) in batch.iter().zip(lines.iter()).enumerate() {
        out.counters.inc("c19.replays-second-process");
        let mut it = line.split_whitespace();
        let len: usize = it.next().and_then(|x| x.parse().ok()).unwrap_or(0);
        let last: u64 = it.next().and_then(|x| x.parse().ok()).unwrap_or(0);
        if len != p.len || last != p.last {
            let msg = "the same history gives a different observation trace in a second process".to_string();
            let path = write_replay(
                cfg,
                &format!("proc{k}"),
                &[("n", p.n.to_string()), ("cap", p.cap.to_string()), ("message", msg.clone())],
                &history_text(&p.ops),
            );
            viol = Some(ViolRec { message: format!("{msg} [N={} cap={}]", p.n, p.cap), replay: path, signature: "C19".to_string() });
            break;
        }
    }
    batch.clear();
    viol
}

/// Child-process entry: replay every history of the batch file, print "<len> <last hash>" per history.
pub fn trace_main(file: &std::path::Path, work: &std::path::Path) -> i32 {
    let Ok(txt) = std::fs::read_to_string(file) else { return 3 };
    let mut cur: Option<(usize, usize, Vec<Op>)> = None;
    for line in txt.lines() {
        if let Some(r) = line.strip_prefix("history ") {
            let mut it = r.split_whitespace();
            let n = it.next().and_then(|x| x.parse().ok()).unwrap_or(1);
            let cap = it.next().and_then(|x| x.parse().ok()).unwrap_or(1);
            cur = Some((n, cap, vec![]));
        } else if line == "end" {
            if let Some((n, cap, ops)) = cur.take() {
                let labels = crate::hist::labels_of(&ops);
                let t = trace(n, cap, &ops, work, &labels);
                println!("{} {}", t.len(), t.last().copied().unwrap_or(0));
            }
        } else if let Some((_, _, ops)) = &mut cur {
            if line.trim().is_empty() {
                continue;
            }
            match Op::parse(line) {
                Some(o) => ops.push(o),
                None => {
                    eprintln!("cannot parse {line}");
                    return 3;
                }
            }
        }
    }
    0
}

pub fn replay(rp: &crate::shard::Replay, work: &std::path::Path) -> bool {
    let get = |k: &str| rp.header.get(k).cloned().unwrap_or_default();
    let n: usize = get("n").parse().unwrap_or(4);
    let cap: usize = get("cap").parse().unwrap_or(16);
    let ops: Vec<Op> = rp.body.iter().filter_map(|l| Op::parse(l)).collect();
    let labels = crate::hist::labels_of(&ops);
    let t0 = trace(n, cap, &ops, work, &labels);
    let mut hit = false;
    for (n2, cap2) in [(n, cap), (16, 256), (n, cap + 1), (16, cap), (n, 256)] {
        let t = trace(n2, cap2, &ops, work, &labels);
        match first_mismatch(&t0, &t) {
            Some(i) => {
                println!("VIOLATION reproduced: N={n2} cap={cap2} differs from N={n} cap={cap} at call #{i} ({})", ops.get(i).map(Op::show).unwrap_or_default());
                hit = true;
            }
            None => println!("N={n2} cap={cap2}: identical trace ({} calls)", t.len()),
        }
    }
    hit
}
