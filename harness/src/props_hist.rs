//! History-driven checks: workload choice per property, violation confirmation, shrinking.

use crate::churn::ChurnGen;
use crate::gen::{pick_config, Gen, Profile};
use crate::hist::{HistMonitor, HistResult, Runner, Source};
use crate::json::J;
use crate::mon_gc::{C01, C02, C03, C04, C05};
use crate::ops::{history_show, history_text, Op};
use crate::rng::{mix, Rng};
use crate::shard::{write_replay, ShardCfg, ShardOut, ViolRec};

pub fn make_monitor(prop: &str, n: usize, cap: usize, profile: Profile) -> Box<dyn HistMonitor> {
    match prop {
        "C01" => Box::new(C01::default()),
        "C02" => Box::new(C02 { churn: false, slot_fill: profile == Profile::Churn, collections: 0 }),
        "C06" => Box::new(C02 { churn: true, slot_fill: true, collections: 0 }),
        "C03" => Box::new(C03::default()),
        "C04" => Box::new(C04::new(n, cap)),
        "C05" => Box::new(C05::default()),
        "C08" => Box::new(crate::mon_twin::C08::new()),
        "C10" => Box::new(crate::mon_twin::C10::new_clone()),
        "C18" => Box::new(crate::mon_text::C18::default()),
        "C20" => Box::new(crate::mon_text::C20::default()),
        "C13" => Box::new(crate::mon_slice::C13::default()),
        _ => panic!("harness: no history monitor for {prop}"),
    }
}

/// Profile weights per property, in the order of gen::ALL_PROFILES:
/// classic put-first overwrite re-add static-reads churn cross full mixed labels
fn profile_weights(prop: &str) -> [u32; 10] {
    match prop {
        "C01" => [10, 15, 8, 13, 12, 5, 18, 4, 14, 2],
        "C02" => [8, 18, 15, 15, 6, 10, 8, 10, 0, 2], // primitives only: merge/clone/save+load/scripts are C11/C10/C08/C14's
        "C03" => [8, 6, 14, 10, 6, 4, 16, 10, 0, 26],
        "C04" => [0, 5, 5, 80, 5, 0, 5, 0, 0, 0],
        "C05" => [5, 5, 0, 30, 5, 5, 5, 0, 45, 0],
        // mostly churn; a share of long re-add / static-reads / cross-group histories (edges that outlive
        // their target, ids re-created and re-bound: seeded change C06-I)
        "C06" => [0, 0, 0, 10, 10, 70, 10, 0, 0, 0],
        "C08" | "C10" => [5, 8, 8, 8, 5, 0, 8, 8, 50, 0],
        "C18" | "C20" => [5, 5, 5, 10, 5, 0, 15, 10, 40, 5],
        "C13" => [10, 5, 0, 5, 0, 0, 30, 20, 15, 15],
        _ => [10; 10],
    }
}

fn history_len(prop: &str, rng: &mut Rng, thorough: bool) -> usize {
    match prop {
        "C06" => {
            if thorough {
                *rng.pick(&[300usize, 800, 2000, 6000, 16000])
            } else {
                *rng.pick(&[200usize, 400, 800, 1500, 6000])
            }
        }
        "C04" | "C18" | "C20" | "C13" => rng.range(20, 150),
        _ => {
            if rng.chance(1, 6) {
                rng.range(200, 400)
            } else {
                rng.range(20, 200)
            }
        }
    }
}

pub struct Case {
    pub n: usize,
    pub cap: usize,
    pub profile: Profile,
    pub len: usize,
    pub seed: u64,
}

pub fn pick_case(prop: &str, seed: u64, thorough: bool) -> Case {
    let mut rng = Rng::new(seed);
    let (mut n, mut cap) = pick_config(&mut rng);
    let pw = profile_weights(prop);
    let profile = crate::gen::ALL_PROFILES[rng.weighted(&pw)];
    if profile == Profile::Full {
        cap = cap.max(40);
    }
    if prop == "C06" {
        cap = cap.max(8);
        if rng.chance(1, 3) {
            n = *rng.pick(&[1usize, 2, 16]);
        }
    }
    let mut len = history_len(prop, &mut rng, thorough);
    if prop == "C08" && rng.chance(1, 250) {
        // an image of more than a megabyte although every piece of it is small ("for every N and capacity")
        n = *rng.pick(&[1usize, 2]);
        cap = rng.range(25_000, 45_000);
        len = rng.range(8, 25);
    }
    Case { n, cap, profile, len, seed: rng.next() }
}

fn run_case(
    prop: &str,
    case: &Case,
    fixed: Option<&[Op]>,
    out: &mut ShardOut,
    work: &std::path::Path,
    sink: Option<std::fs::File>,
) -> HistResult {
    let mut mon = make_monitor(prop, case.n, case.cap, case.profile);
    let mut runner = Runner {
        c: &mut out.counters,
        snaps: &mut out.snaps,
        mstates: &mut out.mstates,
        configs: &mut out.configs,
        workdir: work,
        track_states: matches!(prop, "C01" | "C02" | "C06"),
    };
    match fixed {
        Some(ops) => runner.run(case.n, case.cap, case.seed, Source::Fixed(ops), mon.as_mut(), sink),
        None => {
            if case.profile == Profile::Churn {
                let mut g = ChurnGen::new(case.seed, case.n, case.cap);
                runner.run(case.n, case.cap, case.seed, Source::Churn(&mut g, case.len), mon.as_mut(), sink)
            } else {
                let mut g = Gen::new(case.seed, case.profile, case.n, case.cap);
                configure_gen(prop, &mut g);
                let len = case.len + g.prelude.len();
                runner.run(case.n, case.cap, case.seed, Source::Gen(&mut g, len), mon.as_mut(), sink)
            }
        }
    }
}

fn configure_gen(prop: &str, g: &mut Gen) {
    match prop {
        // C03's oracle compares label values with the model: keep script label parsing (C14/C17) out
        "C03" => {
            g.allow_script = false;
            if g.rng.chance(1, 2) {
                g.add_noncanon_labels();
            }
            if g.rng.chance(1, 3) {
                g.boost_clone = 2;
                g.boost_save = 2;
            }
        }
        "C04" => {
            g.allow_script = false;
            // hand-overs: the history continues on a clone or on a reloaded image (add() must behave the
            // same there: recycled ids whose slots were saved / copied in their used state)
            if g.rng.chance(1, 2) {
                g.boost_clone = 3;
                g.boost_save = 3;
            }
        }
        // scripts are not among the calls C01 quantifies over, and their variable ids are only predicted
        "C01" => g.allow_script = false,
        "C02" => {
            if g.rng.chance(1, 4) {
                g.add_noncanon_labels();
            }
            // hand-overs (round 4): one history in three goes on with a clone / a reloaded image
            if g.rng.chance(1, 3) {
                g.boost_clone = 2;
                g.boost_save = 2;
            }
        }
        "C08" => {
            if g.rng.chance(1, 2) {
                g.add_noncanon_labels();
            }
            if g.rng.chance(1, 6) {
                let cap = g.target_pop.max(30);
                g.many_groups_prelude(cap);
            }
            g.boost_save = 6;
            if g.rng.chance(1, 2) {
                g.allocator_ops_after = g.rng.range(10, 60);
            }
        }
        "C18" | "C20" => {
            if g.rng.chance(1, 8) {
                let cap = g.target_pop.max(30);
                g.many_groups_prelude(cap);
            }
            // two labels of one vertex that print the same
            if g.rng.chance(1, 3) {
                g.add_colliding_labels();
            }
        }
        "C10" => {
            g.boost_clone = 6;
            if g.rng.chance(1, 6) {
                let cap = g.target_pop.max(30);
                g.many_groups_prelude(cap);
            }
            if g.rng.chance(1, 2) {
                g.add_noncanon_labels();
            }
        }
        _ => {}
    }
}

/// Delta-debugging over the op list; `fails` re-runs a candidate with a fresh monitor.
pub fn shrink(ops: &[Op], fails: &mut dyn FnMut(&[Op]) -> bool, max_runs: usize) -> Vec<Op> {
    let mut cur: Vec<Op> = ops.to_vec();
    let mut runs = 0;
    let mut chunk = (cur.len() / 2).max(1);
    while chunk >= 1 && runs < max_runs {
        let mut i = 0;
        let mut progressed = false;
        while i < cur.len() && runs < max_runs {
            let end = (i + chunk).min(cur.len());
            let mut cand = cur[..i].to_vec();
            cand.extend_from_slice(&cur[end..]);
            runs += 1;
            if !cand.is_empty() && fails(&cand) {
                cur = cand;
                progressed = true;
            } else {
                i = end;
            }
        }
        if chunk == 1 && !progressed {
            break;
        }
        if !progressed || chunk > cur.len() {
            chunk /= 2;
        }
    }
    cur
}

/// Small-scope sweep (a workload, not another technique): every legal history up to the depth
/// the budget allows over 3-4 ids, 1-2 labels, one datum; each shard takes one parameter set.
/// Sequences are executed from scratch on the real code; a sequence is extended only if the pair
/// (model state, hook snapshot) it ends in was not seen before.
fn sweep(cfg: &ShardCfg, out: &mut ShardOut, max_depth: usize, time_share: f64) -> bool {
    use crate::ops::HexSpec;
    use sodg::Label;
    let prop = cfg.prop.as_str();
    let k = cfg.shard as usize;
    let ids = [3usize, 4][k % 2];
    let nl = [1usize, 2][(k / 2) % 2];
    let n = [1usize, 2][(k / 4) % 2];
    let cap = ids + [0usize, 2][(k / 8) % 2];
    let labels = [Label::Alpha(0), Label::Greek('ρ')];
    let mut alphabet: Vec<Op> = vec![];
    for v in 0..ids {
        alphabet.push(Op::Add(v));
        alphabet.push(Op::Put(v, HexSpec::Canon(vec![0xAB, v as u8])));
        alphabet.push(Op::Data(v));
        for w in 0..ids {
            if v != w {
                for l in labels.iter().take(nl) {
                    alphabet.push(Op::Bind(v, w, *l));
                }
            }
        }
    }
    let case = Case { n, cap, profile: Profile::Classic, len: 0, seed: 1 };
    let mut seen: std::collections::BTreeSet<(u64, u64)> = std::collections::BTreeSet::new();
    let mut frontier: Vec<Vec<Op>> = vec![vec![]];
    let mut sequences = 0u64;
    let mut depth_done = 0usize;
    let mut scratch = ShardOut::new();
    let limit = cfg.budget_s * time_share;
    'outer: for depth in 1..=max_depth {
        let mut next: Vec<Vec<Op>> = vec![];
        for seq in &frontier {
            // legality of the last op needs the model state after `seq`
            let mut m = crate::model::Model::new(n, cap);
            for op in seq {
                crate::props_script::apply_model(&mut m, op);
            }
            for op in &alphabet {
                if !m.legal(op) {
                    continue;
                }
                if out.started.elapsed().as_secs_f64() > limit {
                    out.counters.inc("sweep.stopped-by-budget");
                    break 'outer;
                }
                let mut cand = seq.clone();
                cand.push(op.clone());
                let mut stray = crate::json::Counters::default();
                let Some(r) = crate::shard::case_guard(&mut stray, || run_case(prop, &case, Some(&cand), &mut scratch, &cfg.work, None)) else {
                    out.counters.inc("case.abandoned-by-stray-panic-from-code-under-test");
                    continue;
                };
                sequences += 1;
                out.calls += r.stats.calls;
                if let Some((msg, _)) = &r.violation {
                    let path = write_replay(
                        cfg,
                        &format!("sweep{sequences}"),
                        &[
                            ("n", n.to_string()),
                            ("cap", cap.to_string()),
                            ("profile", "classic".to_string()),
                            ("seed", "1".to_string()),
                            ("message", msg.clone()),
                        ],
                        &history_text(&r.ops),
                    );
                    out.violations.push(ViolRec {
                        message: format!("{msg}  [small-scope sweep N={n} cap={cap} depth {depth}]"),
                        replay: path,
                        signature: format!("history:{}", history_show(&r.ops, 12)),
                    });
                    return false;
                }
                if r.nontrivial {
                    out.nontrivial.insert(r.ops_hash);
                }
                if seen.insert(r.end_key) {
                    next.push(cand);
                }
            }
        }
        depth_done = depth;
        frontier = next;
        if frontier.is_empty() {
            break;
        }
    }
    out.evaluations += sequences;
    out.counters.add("sweep.sequences", sequences);
    out.counters.max("sweep.max-depth-completed", depth_done as u64);
    out.extra = J::obj()
        .with("exhaustive_small_scope", J::obj()
            .with("ids", J::i(ids)).with("labels", J::i(nl)).with("N", J::i(n)).with("cap", J::i(cap))
            .with("depth_completed", J::i(depth_done))
            .with("sequences", J::Int(i128::from(sequences)))
            .with("distinct_states", J::i(seen.len())));
    true
}

pub fn run_shard(cfg: &ShardCfg, out: &mut ShardOut) {
    let prop = cfg.prop.as_str();
    let mut scratch = ShardOut::new();
    if matches!(prop, "C01" | "C02" | "C03" | "C04") {
        let (d, share) = if cfg.thorough { (12, 0.5) } else { (9, 0.45) };
        if !sweep(cfg, out, d, share) {
            return;
        }
    }
    for j in 0..cfg.count {
        if out.out_of_time(cfg) {
            out.counters.inc("stopped-by-budget");
            break;
        }
        let case_seed = mix(&[cfg.seed, cfg.shard, j as u64, 0xC0DE]);
        let case = pick_case(prop, case_seed, cfg.thorough);
        let sink = if cfg.mode == "sink" {
            std::fs::File::create(cfg.work.join(format!("last-{}.ops", cfg.shard))).ok()
        } else {
            None
        };
        let mut stray = crate::json::Counters::default();
        let Some(r) = crate::shard::case_guard(&mut stray, || run_case(prop, &case, None, out, &cfg.work, sink)) else {
            out.counters.inc("case.abandoned-by-stray-panic-from-code-under-test");
            continue;
        };
        if cfg.mode == "dump" && r.violation.is_none() {
            dump_history(cfg, out, &case, &r.ops);
        }
        out.evaluations += 1;
        out.calls += r.stats.calls;
        out.counters.inc(&format!("profile.{}", case.profile.name()));
        out.counters.add("collections", r.stats.collections);
        out.counters.add("vertices-collected", r.stats.collected);
        out.counters.max("max-live-groups", r.stats.max_live_groups);
        out.counters.max("max-collections-in-one-history", r.stats.collections);
        out.counters.max("max-calls-in-one-history", r.stats.calls);
        if r.nontrivial {
            out.nontrivial.insert(r.ops_hash);
            if out.samples.len() < 3 {
                out.samples.push(
                    J::obj()
                        .with("N", J::i(case.n))
                        .with("cap", J::i(case.cap))
                        .with("profile", J::s(case.profile.name()))
                        .with("calls", J::i(r.ops.len()))
                        .with("collections", J::Int(i128::from(r.stats.collections)))
                        .with("history", J::s(&history_show(&r.ops, 60))),
                );
            }
        }
        if let Some((msg, at)) = &r.violation {
            // confirm: the same ops, replayed from scratch, must refute again
            // a violation found by the end-of-history probes is replayed from the history proper: the
            // probes run again by themselves
            let upto = if *at >= r.main_len { r.main_len } else { (*at + 1).min(r.ops.len()) };
            let ops = &r.ops[..upto];
            let again = run_case(prop, &case, Some(ops), &mut scratch, &cfg.work, None);
            if again.violation.is_none() {
                // keep the full history: maybe the probe suffix is what matters
                let again2 = run_case(prop, &case, Some(&r.ops), &mut scratch, &cfg.work, None);
                if again2.violation.is_none() {
                    out.inconclusive = Some(format!(
                        "violation not reproducible on replay (case seed {case_seed}): {msg}"
                    ));
                    let _ = write_replay(
                        cfg,
                        &format!("{j}-unconfirmed"),
                        &[
                            ("n", case.n.to_string()),
                            ("cap", case.cap.to_string()),
                            ("profile", case.profile.name().to_string()),
                            ("seed", case.seed.to_string()),
                            ("message", msg.clone()),
                        ],
                        &history_text(&r.ops),
                    );
                    break;
                }
            }
            let base: Vec<Op> = if again.violation.is_some() { ops.to_vec() } else { r.ops.clone() };
            let small = shrink(
                &base,
                &mut |cand| run_case(prop, &case, Some(cand), &mut scratch, &cfg.work, None).violation.is_some(),
                if cfg.thorough { 600 } else { 300 },
            );
            let fin = run_case(prop, &case, Some(&small), &mut scratch, &cfg.work, None);
            let (fmsg, fops) = match fin.violation {
                Some((m, _)) => (m, fin.ops),
                None => (msg.clone(), base),
            };
            let path = write_replay(
                cfg,
                &j.to_string(),
                &[
                    ("n", case.n.to_string()),
                    ("cap", case.cap.to_string()),
                    ("profile", case.profile.name().to_string()),
                    ("seed", case.seed.to_string()),
                    ("message", fmsg.clone()),
                    ("original_message", msg.clone()),
                    ("original_calls", r.ops.len().to_string()),
                ],
                &history_text(&fops),
            );
            out.violations.push(ViolRec {
                message: format!("{fmsg}  [N={} cap={} profile={} shrunk {}→{} calls]", case.n, case.cap, case.profile.name(), r.ops.len(), fops.len()),
                replay: path,
                signature: format!("history:{}", history_show(&fops, 12)),
            });
            break;
        }
    }
}

/// Replay a recorded history with the property's monitor and print the per-call trace.
pub fn replay(rp: &crate::shard::Replay, work: &std::path::Path) -> bool {
    let get = |k: &str| rp.header.get(k).cloned().unwrap_or_default();
    let n: usize = get("n").parse().unwrap_or(4);
    let cap: usize = get("cap").parse().unwrap_or(16);
    let profile = Profile::parse(&get("profile")).unwrap_or(Profile::Classic);
    let seed: u64 = get("seed").parse().unwrap_or(0);
    let mut ops = vec![];
    for l in &rp.body {
        match Op::parse(l) {
            Some(o) => ops.push(o),
            None => {
                println!("cannot parse op line: {l}");
                return false;
            }
        }
    }
    let case = Case { n, cap, profile, len: ops.len(), seed };
    let mut out = ShardOut::new();
    println!("replaying {} calls on Sodg<{n}>::empty({cap}) with the {} monitor", ops.len(), rp.prop);
    // trace
    {
        let mut s = crate::rec::Session::new(n, cap, work);
        for (i, op) in ops.iter().enumerate() {
            if !s.m.legal(op) {
                println!("  #{i} {}  (skipped: not legal in the model state)", op.show());
                continue;
            }
            let o = s.step(op);
            println!(
                "  #{i} {} -> {:?}{}  keys={:?}  model={:?}",
                op.show(),
                o.ret,
                o.panic.as_ref().map(|p| format!(" PANIC {p}")).unwrap_or_default(),
                o.keys_after,
                s.m.keys()
            );
            if o.panic.is_some() {
                break;
            }
        }
        println!("  final Debug:\n{}", s.g.debug());
    }
    let r = run_case(&rp.prop, &case, Some(&ops), &mut out, work, None);
    match r.violation {
        Some((m, at)) => {
            println!("VIOLATION reproduced at call #{at}: {m}");
            true
        }
        None => {
            println!("no violation on this tree");
            false
        }
    }
}

/// Second-oracle support (DESIGN §3.12): write the call/return log of a history of primitive calls
/// as one JSON line; `offline/check_log.py` re-judges it with an independent implementation.
fn dump_history(cfg: &ShardCfg, out: &mut ShardOut, case: &Case, ops: &[Op]) {
    use crate::rec::{exec_raw, Ret};
    use std::io::Write;
    if out.counters.get("dump.histories") >= 400 {
        return;
    }
    if !ops.iter().all(|o| matches!(o, Op::Add(_) | Op::Bind(..) | Op::Put(..) | Op::Data(_) | Op::Kid(..) | Op::Kids(_) | Op::NextId)) {
        return;
    }
    let mut g = crate::shim::new_graph(case.n, case.cap);
    let mut uniq = 0u64;
    let mut calls: Vec<J> = vec![];
    let mut obs: Vec<J> = vec![];
    for op in ops {
        let call = match op {
            Op::Add(v) => J::Arr(vec![J::s("add"), J::i(*v)]),
            Op::Bind(a, b, l) => J::Arr(vec![J::s("bind"), J::i(*a), J::i(*b), J::s(&crate::ops::label_text(l))]),
            Op::Put(v, d) => J::Arr(vec![J::s("put"), J::i(*v), J::s(&crate::ops::hex(&d.bytes()))]),
            Op::Data(v) => J::Arr(vec![J::s("data"), J::i(*v)]),
            Op::Kid(v, l) => J::Arr(vec![J::s("kid"), J::i(*v), J::s(&crate::ops::label_text(l))]),
            Op::Kids(v) => J::Arr(vec![J::s("kids"), J::i(*v)]),
            _ => J::Arr(vec![J::s("next_id")]),
        };
        let r = exec_raw(&mut g, op, &cfg.work, &mut uniq, &[]);
        let ret = match r {
            Ok(Ret::Data(Some(d))) => J::s(&crate::ops::hex(&d)),
            Ok(Ret::Id(id)) => J::i(id),
            Ok(Ret::Kid(Some(t))) => J::i(t),
            Ok(_) => J::Null,
            Err(_) => J::s("PANIC"),
        };
        calls.push(call);
        obs.push(J::obj().with("r", ret).with("k", J::Arr(g.keys().into_iter().map(J::i).collect())));
    }
    let line = J::obj().with("n", J::i(case.n)).with("cap", J::i(case.cap)).with("calls", J::Arr(calls)).with("obs", J::Arr(obs));
    if let Ok(mut f) = std::fs::OpenOptions::new().create(true).append(true).open(cfg.work.join(format!("dump-{}.jsonl", cfg.shard))) {
        let _ = writeln!(f, "{}", line.render());
        out.counters.inc("dump.histories");
    }
}
