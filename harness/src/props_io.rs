//! C09: a truncated image is rejected, never half-loaded. Fault enumeration: for every image
//! every prefix length is tried (direct truncation), and a sample of cut points is produced by a
//! real partial write of save() under a lowered RLIMIT_FSIZE.

use crate::gen::{pick_config, Gen, Profile};
use crate::json::J;
use crate::ops::{hex, unhex};
use crate::rec::{guarded, Session};
use crate::rng::{mix, Fnv, Rng};
use crate::shard::{write_replay, ShardCfg, ShardOut, ViolRec};
use crate::shim::load_graph;

fn image_nontrivial(s: &sodg::VerifSnapshot) -> bool {
    let has_vec = s.slots.iter().any(|x| x.branch != 0 && x.persistence != 0 && !x.data_inline);
    let has_multi = s.slots.iter().any(|x| x.branch != 0 && x.edges.len() >= 2);
    let has_group = s.members.iter().any(|(b, m)| *b >= 2 && !m.is_empty());
    has_vec && has_multi && has_group
}

/// Err(message) if loading the prefix does anything but return an error.
pub fn check_prefix(n: usize, path: &std::path::Path, bytes: &[u8], k: usize) -> Result<(), String> {
    std::fs::write(path, &bytes[..k]).map_err(|e| format!("harness: cannot write prefix: {e}"))?;
    match guarded(|| load_graph(n, path).map(|g| g.keys())) {
        Ok(Err(_)) => Ok(()),
        Ok(Ok(keys)) => Err(format!(
            "load() of the first {k} of {} bytes returned a graph (with {} vertices) instead of an error",
            bytes.len(),
            keys.len()
        )),
        Err(p) => Err(format!("load() of the first {k} of {} bytes panicked: {p}", bytes.len())),
    }
}

fn set_fsize_limit(k: Option<u64>) -> u64 {
    unsafe {
        let mut cur = libc::rlimit { rlim_cur: 0, rlim_max: 0 };
        libc::getrlimit(libc::RLIMIT_FSIZE, &mut cur);
        let old = cur.rlim_cur;
        cur.rlim_cur = k.unwrap_or(cur.rlim_max);
        libc::setrlimit(libc::RLIMIT_FSIZE, &cur);
        old
    }
}

pub fn run_c09(cfg: &ShardCfg, out: &mut ShardOut) {
    unsafe {
        libc::signal(libc::SIGXFSZ, libc::SIG_IGN);
    }
    let path = cfg.work.join(format!("c09-{}-{}.sodg", std::process::id(), cfg.shard));
    let mut partial_ok = 0u64;
    let mut partial_other = 0u64;
    for j in 0..cfg.count {
        if out.out_of_time(cfg) {
            out.counters.inc("stopped-by-budget");
            break;
        }
        let seed = mix(&[cfg.seed, cfg.shard, j as u64, 9]);
        let mut rng = Rng::new(seed);
        let (mut n, mut cap) = pick_config(&mut rng);
        if rng.chance(1, 2) {
            n = *rng.pick(&[1usize, 4, 16]);
        }
        if cap > 64 && !rng.chance(1, 8) {
            cap = rng.range(4, 64);
        }
        let profile = *rng.pick(&[Profile::Mixed, Profile::Mixed, Profile::Cross, Profile::Full, Profile::Labels, Profile::ReAdd]);
        let cap = if profile == Profile::Full { cap.max(40) } else { cap };
        let mut gen = Gen::new(rng.next(), profile, n, cap);
        if rng.chance(1, 5) {
            // images of graphs that use the last group slots
            gen.many_groups_prelude(cap.max(30));
        }
        let mut s = Session::new(n, cap, &cfg.work);
        let len = rng.range(15, 150) + gen.prelude.len();
        let mut ok = true;
        for _ in 0..len {
            let op = gen.next_op(&s.m);
            let o = s.step(&op);
            if o.panic.is_some() {
                ok = false;
                break;
            }
            match guarded(|| s.g.keys()) {
                Ok(k) => {
                    if k != s.m.keys() {
                        let snap = s.g.snapshot();
                        s.m.resync(&snap);
                    }
                }
                Err(_) => {
                    ok = false;
                    break;
                }
            }
        }
        if !ok {
            out.counters.inc("history.cut-by-foreign-panic");
            continue;
        }
        out.configs.insert((n, cap));
        let saved = guarded(|| s.g.save(&path));
        let size = match saved {
            Ok(Ok(sz)) => sz,
            other => {
                out.counters.inc("save-failed");
                let _ = other;
                continue;
            }
        };
        let bytes = std::fs::read(&path).unwrap_or_default();
        if bytes.len() != size {
            out.counters.inc("save-size-mismatch");
        }
        // control: the complete image loads
        let keys_now = guarded(|| s.g.keys()).unwrap_or_default();
        match guarded(|| load_graph(n, &path).map(|g| g.keys())) {
            Ok(Ok(k)) if k == keys_now => out.counters.inc("complete-image-loads"),
            _ => {
                out.counters.inc("complete-image-does-not-load");
                continue;
            }
        }
        let snap = s.g.snapshot();
        let nontrivial = image_nontrivial(&snap);
        let mut f = Fnv::new();
        f.write(&bytes);
        if nontrivial {
            out.nontrivial.insert(f.0);
        }
        out.counters.inc("images");
        out.counters.max("max-image-bytes", bytes.len() as u64);
        if out.samples.len() < 3 && nontrivial {
            out.samples.push(
                J::obj()
                    .with("N", J::i(n))
                    .with("cap", J::i(cap))
                    .with("image_bytes", J::i(bytes.len()))
                    .with("vertices", J::i(s.g.len()))
                    .with("prefixes_tried", J::s(&format!("every k in 0..{}", bytes.len())))
                    .with("built_by", J::s(&crate::ops::history_show(&s.ops, 25))),
            );
        }
        // 1. every prefix, direct truncation
        let mut bad: Option<(usize, String)> = None;
        for k in 0..bytes.len() {
            out.evaluations += 1;
            if let Err(m) = check_prefix(n, &path, &bytes, k) {
                bad = Some((k, m));
                break;
            }
        }
        out.counters.add("prefix-loads", bytes.len() as u64);
        // 2. real partial writes of save() (the kernel cuts the write)
        if bad.is_none() {
            // an earlier state of the same kind of graph whose complete image may already be at the path
            let mut prev_graph = crate::shim::new_graph(n, cap);
            let _ = guarded(|| {
                prev_graph.add(0);
                if cap > 1 {
                    prev_graph.add(cap - 1);
                    prev_graph.bind(0, cap - 1, sodg::Label::Alpha(0));
                    prev_graph.put(cap - 1, &sodg::Hex::from_vec(vec![7u8; 12]));
                }
            });
            let mut ks: Vec<usize> = vec![0, 1, 2, 7, 8, 9, bytes.len() - 1, bytes.len().saturating_sub(2), bytes.len() / 2];
            let extra = if cfg.thorough { 55 } else { 23 };
            for _ in 0..extra {
                ks.push(rng.below(bytes.len()));
            }
            ks.retain(|k| *k < bytes.len());
            for k in ks {
                // the cut write lands on a fresh path or on one that holds an earlier, complete image of a graph
                // (a crash while saving over the previous image): whatever save() does with the old file, the
                // truncated new one must not load
                let over_old = rng.chance(1, 2);
                let _ = std::fs::remove_file(&path);
                if over_old {
                    let wrote = guarded(|| prev_graph.save(&path));
                    if !matches!(wrote, Ok(Ok(_))) {
                        out.counters.inc("earlier-image-not-written");
                        let _ = std::fs::remove_file(&path);
                    } else {
                        out.counters.inc("partial-writes-over-an-earlier-complete-image");
                    }
                }
                let old = set_fsize_limit(Some(k as u64));
                let r = guarded(|| s.g.save(&path));
                set_fsize_limit(Some(old));
                let on_disk = std::fs::read(&path).unwrap_or_default();
                out.evaluations += 1;
                out.counters.inc("partial-writes-injected");
                match r {
                    Ok(Err(_)) if on_disk.len() == k && on_disk[..] == bytes[..k] => partial_ok += 1,
                    _ => partial_other += 1,
                }
                if on_disk.len() < bytes.len() {
                    match guarded(|| load_graph(n, &path).map(|g| g.keys())) {
                        Ok(Err(_)) => {}
                        Ok(Ok(keys)) => {
                            bad = Some((
                                on_disk.len(),
                                format!(
                                    "after save() was cut by the OS at {} of {} bytes, load() returned a graph with {} vertices",
                                    on_disk.len(),
                                    bytes.len(),
                                    keys.len()
                                ),
                            ));
                            break;
                        }
                        Err(p) => {
                            bad = Some((on_disk.len(), format!("after a partial write of {} bytes load() panicked: {p}", on_disk.len())));
                            break;
                        }
                    }
                }
            }
        }
        if let Some((k, m)) = bad {
            let p = write_replay(
                cfg,
                &j.to_string(),
                &[("n", n.to_string()), ("cap", cap.to_string()), ("message", m.clone())],
                &format!("image {n} {k} {}", hex(&bytes)),
            );
            out.violations.push(ViolRec { message: format!("{m} [N={n} cap={cap}]"), replay: p, signature: format!("C09:prefix") });
            break;
        }
    }
    let _ = std::fs::remove_file(&path);
    out.counters.add("partial-writes-as-expected(err,exactly-k-bytes)", partial_ok);
    out.counters.add("partial-writes-other-outcome", partial_other);
}

pub fn replay(rp: &crate::shard::Replay) -> bool {
    let mut hit = false;
    let path = std::env::temp_dir().join(format!("c09-replay-{}.sodg", std::process::id()));
    for line in &rp.body {
        let mut it = line.split_whitespace();
        if it.next() != Some("image") {
            continue;
        }
        let n: usize = it.next().and_then(|x| x.parse().ok()).unwrap_or(1);
        let k: usize = it.next().and_then(|x| x.parse().ok()).unwrap_or(0);
        let bytes = unhex(it.next().unwrap_or("")).unwrap_or_default();
        match check_prefix(n, &path, &bytes, k.min(bytes.len())) {
            Ok(()) => println!("prefix {k} of {} bytes: rejected (holds on this tree)", bytes.len()),
            Err(m) => {
                println!("VIOLATION reproduced: {m}");
                hit = true;
            }
        }
    }
    let _ = std::fs::remove_file(&path);
    hit
}
