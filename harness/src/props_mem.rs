//! C07: hostile workload run natively (debug assertions), under AddressSanitizer, Miri (two
//! modes) and valgrind memcheck. The memory oracle is the sanitizer; this module drives the API,
//! keeps every call under catch_unwind, and judges only two behavioural claims itself: in-limits
//! calls of an in-sync history complete, and the three enumerated limit overruns panic.

use crate::gen::{gen_data, pick_config, Gen, Profile};
use crate::json::J;
use crate::ops::{HexSpec, Op};
use crate::rec::{guarded, Session};
use crate::rng::{mix, Rng};
use crate::shard::{write_replay, ShardCfg, ShardOut, ViolRec};
use crate::shim::{load_graph, new_graph, Graph};
use sodg::{Hex, Label, Script};
use std::io::Write;
use std::str::FromStr;

struct Log {
    f: Option<std::fs::File>,
}
impl Log {
    fn line(&mut self, s: &str) {
        if let Some(f) = &mut self.f {
            let _ = writeln!(f, "{s}");
            let _ = f.flush();
        }
    }
}

fn wild_id(rng: &mut Rng, g: &dyn Graph, cap: usize) -> usize {
    let keys = g.keys();
    match rng.below(12) {
        0..=4 if !keys.is_empty() => *rng.pick(&keys),
        5..=6 => rng.below(cap.max(1)),
        7 => cap,
        8 => cap + 1,
        9 => cap.wrapping_mul(2),
        10 => usize::MAX / 2,
        _ => usize::MAX,
    }
}

fn classify_panic(p: &str) -> &'static str {
    if p.contains("over the boundary") {
        "emap-boundary"
    } else if p.contains("No more key-value slot") || p.contains("slot available") {
        "micromap-full"
    } else if p.contains("No more space left in the stack") {
        "microstack-full"
    } else if p.contains("unwrap()") {
        "unwrap-none"
    } else if p.contains("overflow") {
        "arithmetic-overflow"
    } else if p.contains("out of bounds") || p.contains("out of range") {
        "index-out-of-range"
    } else if p.contains("Can't merge") {
        "merge-conflict-assert"
    } else {
        "other"
    }
}

/// Directed tainted scenario: all 14 group slots alive, then many more binds of ungrouped pairs
/// (beyond the limits, so no behavioural expectation): whatever the code does with the surplus
/// members must stay inside its arrays. Then the graph keeps being used.
fn slot_exhaustion(seed: u64, cfg: &ShardCfg, out: &mut ShardOut, log: &mut Log, slow: bool) {
    let mut rng = Rng::new(seed);
    let n = *rng.pick(&[1usize, 2, 16]);
    let cap = if slow { 80 } else { *rng.pick(&[80usize, 120, 300, 700]) };
    out.configs.insert((n, cap));
    log.line(&format!("# slot-exhaustion scenario seed={seed} N={n} cap={cap}"));
    let mut g = new_graph(n, cap);
    let l = Label::Alpha(0);
    let mut next = 0usize;
    let mut pair = |g: &mut Box<dyn Graph>, log: &mut Log, out: &mut ShardOut, a: usize, b: usize, put: bool| {
        log.line(&format!("add {a}; add {b}; bind {a} {b}{}", if put { "; put" } else { "" }));
        let _ = guarded(|| g.add(a));
        let _ = guarded(|| g.add(b));
        if put {
            let _ = guarded(|| g.put(b, &Hex::from_vec(vec![1, 2, 3, 4, 5, 6, 7, 8, 9])));
        }
        let r = guarded(|| g.bind(a, b, l));
        out.calls += 3;
        out.counters.inc("c07.slot-exhaustion-binds");
        if let Err(p) = r {
            out.counters.inc(&format!("c07.tainted-panic.{}", classify_panic(&p)));
        }
    };
    for _ in 0..14 {
        pair(&mut g, log, out, next, next + 1, rng.chance(1, 3));
        next += 2;
    }
    let extra = rng.range(18, 24);
    for j in 0..extra {
        // later pairs use high ids so that a corrupted length would index far away
        let (a, b) = if j >= 16 && cap > 100 { (cap - 2 - 2 * (j - 16), cap - 1 - 2 * (j - 16)) } else { (next, next + 1) };
        pair(&mut g, log, out, a, b, rng.chance(1, 2));
        next += 2;
    }
    log.line("keys; debug; reads");
    let _ = guarded(|| g.keys().len());
    let _ = guarded(|| g.debug().len());
    for v in 0..next.min(cap) {
        let _ = guarded(|| g.data(v).map(|h| h.len()));
    }
    let _ = guarded(|| g.clone_box().keys().len());
    let _ = guarded(|| g.keys().len());
    out.nontrivial.insert(mix(&[seed, 0x51]));
}

/// One hostile history. Returns a violation message for the behavioural part, if any.
fn hostile_history(
    seed: u64,
    cfg: &ShardCfg,
    out: &mut ShardOut,
    log: &mut Log,
    slow: bool,
) -> Option<String> {
    let mut rng = Rng::new(seed);
    let (mut n, mut cap) = pick_config(&mut rng);
    if slow {
        cap = rng.range(2, 24);
        n = *rng.pick(&[1usize, 2, 3, 4, 8, 16]);
    } else if cap > 64 && !rng.chance(1, 6) {
        cap = rng.range(2, 64);
    }
    let cap = cap.max(1);
    out.configs.insert((n, cap));
    log.line(&format!("# history seed={seed} N={n} cap={cap}"));
    let mut s = Session::new(n, cap, &cfg.work);
    let profile = *rng.pick(&[Profile::Mixed, Profile::Mixed, Profile::Full, Profile::Cross, Profile::ReAdd, Profile::PutFirst]);
    let cap_g = if profile == Profile::Full && !slow { cap.max(20) } else { cap };
    let _ = cap_g;
    let mut gen = Gen::new(rng.next(), profile, n, cap);
    gen.allow_script = !slow || cfg.thorough;
    // ---------------- phase A: in-sync, within the limits
    let len_a = if slow { rng.range(8, 30) } else { rng.range(15, 90) };
    for _ in 0..len_a {
        let op = gen.next_op(&s.m);
        log.line(&op.text());
        let o = s.step(&op);
        out.calls += 1;
        out.counters.inc("c07.in-limit-calls");
        if let Some(p) = &o.panic {
            return Some(format!("in-limits call {} of an in-sync history panicked: {p}", op.show()));
        }
        // every public query belongs to "every call sequence": len() and is_empty() too (reach showed is_empty()
        // unexecuted by this workload; a query that walks the store can free or read what it must not)
        {
            let g = &s.g;
            if let Err(p) = guarded(|| (g.len(), g.is_empty())) {
                return Some(format!("len()/is_empty() after the in-limits call {} panicked: {p}", op.show()));
            }
            out.calls += 2;
        }
        if s.g.keys() != s.m.keys() {
            // exactness is C02's business; from here the history is no longer in sync
            out.counters.inc("c07.left-sync-before-overrun");
            break;
        }
        if let (Op::NextId, crate::rec::Ret::Id(id)) = (&op, &o.ret) {
            gen.note_next_id(*id);
        }
    }
    let in_sync = s.g.keys() == s.m.keys();
    // ---------------- exactly one overrun with a known outcome
    if in_sync {
        let kind = rng.below(3);
        let fresh_label = Label::Alpha(777_000 + rng.below(1000));
        let (desc, call): (String, Box<dyn FnOnce(&mut Box<dyn Graph>)>) = match kind {
            0 => {
                let id = *rng.pick(&[cap, cap + 1, cap * 2, usize::MAX / 2, usize::MAX]);
                let keys = s.g.keys();
                let other = keys.first().copied().unwrap_or(0);
                match rng.below(9) {
                    0 => (format!("add({id})"), Box::new(move |g| g.add(id))),
                    1 => (format!("bind({id},{other},l)"), Box::new(move |g| g.bind(id, other, fresh_label))),
                    2 if !keys.is_empty() => (format!("bind({other},{id},l)"), Box::new(move |g| g.bind(other, id, fresh_label))),
                    3 => (format!("put({id})"), Box::new(move |g| g.put(id, &Hex::from_vec(vec![1, 2, 3])))),
                    4 => (format!("data({id})"), Box::new(move |g| {
                        let _ = g.data(id);
                    })),
                    5 => (format!("kid({id})"), Box::new(move |g| {
                        let _ = g.kid(id, fresh_label);
                    })),
                    6 => (format!("kids({id})"), Box::new(move |g| {
                        let _ = g.kids(id);
                    })),
                    7 => (format!("slice({id})"), Box::new(move |g| {
                        let _ = g.slice(id);
                    })),
                    _ => (format!("add({id})"), Box::new(move |g| g.add(id))),
                }
            }
            1 => {
                // (N+1)-th distinct label on one vertex
                let abs = s.m.absent_ids();
                if abs.len() < 2 || s.m.live_groups() >= 13 {
                    (String::new(), Box::new(|_| {}))
                } else {
                    let (a, b) = (abs[0], abs[1]);
                    let mut ok = true;
                    for op in [Op::Add(a), Op::Add(b)] {
                        log.line(&op.text());
                        ok &= s.step(&op).panic.is_none();
                    }
                    for i in 0..n {
                        let op = Op::Bind(a, b, Label::Alpha(880_000 + i));
                        if !s.m.legal(&op) {
                            ok = false;
                            break;
                        }
                        log.line(&op.text());
                        let o = s.step(&op);
                        out.calls += 1;
                        if let Some(p) = &o.panic {
                            return Some(format!("in-limits call {} (label no.{} of {n}) panicked: {p}", op.show(), i + 1));
                        }
                    }
                    if ok {
                        (format!("bind({a},{b}, label no.{} on a vertex of Sodg<{n}>)", n + 1), Box::new(move |g| g.bind(a, b, fresh_label)))
                    } else {
                        (String::new(), Box::new(|_| {}))
                    }
                }
            }
            _ => {
                // 17th member of a group
                let abs = s.m.absent_ids();
                if abs.len() < 17 || s.m.live_groups() >= 13 {
                    (String::new(), Box::new(|_| {}))
                } else {
                    let ids: Vec<usize> = abs[..17].to_vec();
                    let mut ok = true;
                    for v in &ids {
                        let op = Op::Add(*v);
                        log.line(&op.text());
                        ok &= s.step(&op).panic.is_none();
                    }
                    let l = Label::Alpha(990_000);
                    // chain so that no vertex needs more than one label (works for N = 1)
                    for i in 1..16 {
                        let op = Op::Bind(ids[i], ids[i - 1], l);
                        if !s.m.legal(&op) {
                            ok = false;
                            break;
                        }
                        log.line(&op.text());
                        let o = s.step(&op);
                        out.calls += 1;
                        if let Some(p) = &o.panic {
                            return Some(format!("in-limits call {} (member no.{} of 16) panicked: {p}", op.show(), i + 1));
                        }
                    }
                    if ok {
                        let (a, b) = (ids[16], ids[15]);
                        (format!("bind({a},{b}) adding a 17th member to a group"), Box::new(move |g| g.bind(a, b, l)))
                    } else {
                        (String::new(), Box::new(|_| {}))
                    }
                }
            }
        };
        if !desc.is_empty() {
            log.line(&format!("# overrun: {desc}"));
            let g = &mut s.g;
            let r = guarded(|| call(g));
            out.calls += 1;
            match r {
                Err(p) => {
                    out.counters.inc(&format!("c07.overrun-panicked.kind{kind}.{}", classify_panic(&p)));
                    out.nontrivial.insert(mix(&[seed, kind as u64]));
                    // "Calls within the limits complete" — also in a sequence that contains a limit violation: right after
                    // the caught panic, the read-only calls on every present vertex (arguments within every limit, no
                    // precondition that depends on the group bookkeeping) must complete. Whatever the interrupted call
                    // left behind (a half-made edge, a tag) must not make them panic.
                    let g = &s.g;
                    let keys = guarded(|| g.keys());
                    let Ok(keys) = keys else {
                        return Some(format!("keys() panicked right after the caught panic of the limit overrun {desc} (N={n} cap={cap})"));
                    };
                    let mut bad: Option<String> = None;
                    let whole: [(&str, Box<dyn Fn() -> usize + '_>); 5] = [
                        ("len()", Box::new(|| g.len())),
                        ("Debug", Box::new(|| g.debug().len())),
                        ("Display", Box::new(|| g.display().len())),
                        ("to_xml()", Box::new(|| g.to_xml().map_or(0, |t| t.len()))),
                        ("to_dot()", Box::new(|| g.to_dot().len())),
                    ];
                    for (name, f) in whole {
                        out.calls += 1;
                        if let Err(p2) = guarded(f) {
                            bad = Some(format!("{name}: {p2}"));
                            break;
                        }
                    }
                    for v in keys.iter().take(40) {
                        if bad.is_some() {
                            break;
                        }
                        let v = *v;
                        let per: [(&str, Box<dyn Fn() -> usize + '_>); 3] = [
                            ("kids", Box::new(move || g.kids(v).len())),
                            ("v_print", Box::new(move || g.v_print(v).map_or(0, |t| t.len()))),
                            ("inspect", Box::new(move || g.inspect(v).map_or(0, |t| t.len()))),
                        ];
                        for (name, f) in per {
                            out.calls += 1;
                            if let Err(p2) = guarded(f) {
                                bad = Some(format!("{name}({v}): {p2}"));
                                break;
                            }
                        }
                    }
                    out.counters.inc("c07.read-only-windows-after-a-caught-overrun");
                    if let Some(b) = bad {
                        return Some(format!(
                            "after the caught panic of the limit overrun {desc}, a read-only call with arguments within the limits panicked: {b} (N={n} cap={cap})"
                        ));
                    }
                }
                Ok(()) => {
                    return Some(format!("limit overrun {desc} returned normally instead of panicking (N={n} cap={cap})"));
                }
            }
        }
    }
    // ---------------- phase B: tainted, no behavioural expectation, only "no sanitizer report"
    let len_b = if slow { rng.range(10, 40) } else { rng.range(20, 120) };
    let mut others: Vec<Box<dyn Graph>> = vec![];
    let path = cfg.work.join(format!("c07-{}-{}.sodg", std::process::id(), cfg.shard));
    let labels: Vec<Label> = {
        let mut l = gen.labels.clone();
        l.push(Label::Alpha(5));
        l.push(Label::Greek('ρ'));
        l.push(crate::ops::str_label("abcdefgh"));
        l
    };
    for _ in 0..len_b {
        {
            let g = &s.g;
            let _ = guarded(|| (g.len(), g.is_empty()));
        }
        let v1 = wild_id(&mut rng, s.g.as_ref(), cap);
        let v2 = wild_id(&mut rng, s.g.as_ref(), cap);
        let l = *rng.pick(&labels);
        let k = rng.below(if slow && !cfg.thorough { 20 } else { 24 });
        let desc;
        let g = &mut s.g;
        let r: Result<(), String> = match k {
            0 => {
                desc = format!("add({v1})");
                log.line(&desc);
                guarded(|| g.add(v1))
            }
            1 | 2 => {
                desc = format!("bind({v1},{v2},{l})");
                log.line(&desc);
                guarded(|| g.bind(v1, v2, l))
            }
            3 => {
                let d = gen_data(&mut rng, true);
                desc = format!("put({v1},{})", d.text());
                log.line(&desc);
                guarded(|| g.put(v1, &d.to_hex()))
            }
            4 | 5 => {
                desc = format!("data({v1})");
                log.line(&desc);
                guarded(|| {
                    let _ = g.data(v1);
                })
            }
            6 => {
                desc = format!("kid({v1},{l})");
                log.line(&desc);
                guarded(|| {
                    let _ = g.kid(v1, l);
                })
            }
            7 => {
                desc = format!("kids({v1})");
                log.line(&desc);
                guarded(|| {
                    let _ = g.kids(v1);
                })
            }
            8 => {
                desc = "next_id()".to_string();
                log.line(&desc);
                guarded(|| {
                    let _ = g.next_id();
                })
            }
            9 => {
                desc = "clone()".to_string();
                log.line(&desc);
                guarded(|| {
                    let c = g.clone_box();
                    if others.len() < 3 {
                        others.push(c);
                    }
                })
            }
            10 => {
                desc = format!("slice({v1})");
                log.line(&desc);
                guarded(|| {
                    if let Ok(sl) = g.slice(v1) {
                        let _ = sl.keys();
                    }
                })
            }
            11 => {
                desc = format!("slice_some({v1}, parity)");
                log.line(&desc);
                guarded(|| {
                    let _ = g.slice_some(v1, &|a, b, _| (a + b) % 2 == 0);
                })
            }
            12 | 13 => {
                // merge with an arbitrary (non-tree, cyclic, shared) right graph: reaches join()
                let hn = rng.range(1, 6);
                let mut hops: Vec<(usize, usize, Label)> = vec![];
                for _ in 0..rng.below(9) {
                    hops.push((rng.below(hn), rng.below(hn), *rng.pick(&labels)));
                }
                let with_data = rng.chance(1, 2);
                desc = format!("merge(non-tree h of {hn} vertices, edges {hops:?}, left={v1}, right=0)");
                log.line(&desc);
                guarded(|| {
                    let mut h = new_graph(n, cap.max(hn));
                    for i in 0..hn {
                        h.add(i);
                        if with_data {
                            h.put(i, &Hex::from_vec(vec![i as u8; 1 + i * 3]));
                        }
                    }
                    for (a, b, l) in &hops {
                        if a != b {
                            h.bind(*a, *b, *l);
                        }
                    }
                    let _ = g.merge(h.as_ref(), v1, 0);
                })
            }
            14 => {
                desc = "save(); load()".to_string();
                log.line(&desc);
                guarded(|| {
                    if g.save(&path).is_ok() {
                        if let Ok(l) = load_graph(n, &path) {
                            let _ = l.keys();
                            if others.len() < 3 {
                                others.push(l);
                            }
                        }
                    }
                })
            }
            15 => {
                // truncated / bit-flipped / foreign-N images
                let mode = rng.below(3);
                let r1 = rng.next();
                desc = format!("save(); corrupt(mode {mode}); load()");
                log.line(&desc);
                guarded(|| {
                    if g.save(&path).is_ok() {
                        let mut bytes = std::fs::read(&path).unwrap_or_default();
                        let n2 = match mode {
                            0 => {
                                let k = (r1 as usize) % bytes.len().max(1);
                                bytes.truncate(k);
                                n
                            }
                            1 => {
                                if !bytes.is_empty() {
                                    let k = (r1 as usize) % bytes.len();
                                    bytes[k] ^= 1 << ((r1 >> 40) % 8);
                                }
                                n
                            }
                            _ => [1usize, 2, 3, 4, 8, 16][(r1 % 6) as usize],
                        };
                        let _ = std::fs::write(&path, &bytes);
                        if let Ok(l) = load_graph(n2, &path) {
                            // use what was loaded: it must still be memory safe
                            let ks = l.keys();
                            for v in ks.iter().take(4) {
                                let _ = guarded(|| l.kids(*v));
                                let _ = guarded(|| l.v_print(*v));
                            }
                            let _ = guarded(|| l.debug());
                        }
                    }
                })
            }
            16 => {
                desc = "to_xml(); to_dot(); Debug; Display".to_string();
                log.line(&desc);
                guarded(|| {
                    let _ = g.to_xml();
                    let _ = g.to_dot();
                    let _ = g.debug();
                    let _ = g.display();
                })
            }
            17 => {
                desc = format!("inspect({v1}); v_print({v1})");
                log.line(&desc);
                guarded(|| {
                    let _ = g.inspect(v1);
                    let _ = g.v_print(v1);
                })
            }
            18 => {
                // Hex accessors out of range, both representations
                let d = gen_data(&mut rng, true);
                let i = *rng.pick(&[0usize, 1, 7, 8, 9, 40, 41, usize::MAX]);
                let j = *rng.pick(&[0usize, 1, 7, 8, 9, 40, 41, usize::MAX]);
                desc = format!("hex {} [{i}] [{i}..{j}] tail concat", d.text());
                log.line(&desc);
                let h = d.to_hex();
                let _ = guarded(|| h[i]);
                let _ = guarded(|| h[i..j].len());
                let _ = guarded(|| h[i..=j].len());
                let _ = guarded(|| h[..j].len());
                let _ = guarded(|| h[i..].len());
                let _ = guarded(|| h.tail(i).len());
                let _ = guarded(|| h.byte_at(j));
                let _ = guarded(|| h.concat(&h).concat(&h).len());
                let _ = guarded(|| h.to_i64().is_ok());
                let _ = guarded(|| h.to_utf8().is_ok());
                Ok(())
            }
            19 => {
                // invalid inline length through the public variant
                let len = *rng.pick(&[8usize, 9, 16, usize::MAX]);
                desc = format!("put({v1}, Hex::Bytes(_, {len})); reads");
                log.line(&desc);
                guarded(|| {
                    let h = Hex::Bytes([7; 8], len);
                    g.put(v1, &h);
                    let _ = g.data(v1);
                })
            }
            20 => {
                desc = "Label::from_str / Hex::from_str on junk".to_string();
                log.line(&desc);
                let junk = ["", "α", "α-1", "α99999999999999999999999", "abcdefghi", "𝜑𝜑𝜑𝜑𝜑𝜑𝜑𝜑𝜑", "a b", "\u{0}"];
                for t in junk {
                    let _ = guarded(|| Label::from_str(t).is_ok());
                    let _ = guarded(|| Hex::from_str(t).is_ok());
                }
                Ok(())
            }
            _ => {
                // scripts, well- and malformed (regex: expensive under Miri, thorough only there)
                let texts = [
                    "ADD(0); ADD($x); BIND(0, $x, foo); PUT($x, ca-fe);",
                    "ADD(99999999999999999999);",
                    "BIND(0, 1, toolonglabel);",
                    "PUT(0, zz);",
                    "ADD($a); ADD($b); BIND($a,$b,α0); BIND($b,$a,α1); PUT($a, 00);",
                    "ADD(18446744073709551615);",
                    "BIND(0,0,x);",
                    "# only a comment\n",
                    "ADD(",
                ];
                let t = *rng.pick(&texts);
                desc = format!("script {t:?}");
                log.line(&desc);
                guarded(|| {
                    let mut sc = Script::from_str(t);
                    let _ = g.deploy(&mut sc);
                })
            }
        };
        out.calls += 1;
        out.counters.inc("c07.tainted-calls");
        if let Err(p) = r {
            out.counters.inc(&format!("c07.tainted-panic.{}", classify_panic(&p)));
        }
        // keep touching the graph after an interrupted call
        let g = &s.g;
        let _ = guarded(|| g.keys().len());
    }
    for o in &others {
        let _ = guarded(|| o.keys().len());
        let _ = guarded(|| o.debug().len());
    }
    let _ = std::fs::remove_file(&path);
    if len_b >= 20 {
        out.nontrivial.insert(mix(&[seed, 0xB]));
    }
    None
}

pub fn run_c07(cfg: &ShardCfg, out: &mut ShardOut) {
    let slow = matches!(cfg.mode.as_str(), "miri1" | "miri2" | "memcheck");
    let logpath = cfg.work.join(format!("c07-{}-{}.log", if cfg.mode.is_empty() { "native" } else { &cfg.mode }, cfg.shard));
    let mut log = Log { f: std::fs::File::create(&logpath).ok() };
    for j in 0..cfg.count {
        if out.out_of_time(cfg) {
            out.counters.inc("stopped-by-budget");
            break;
        }
        let seed = mix(&[cfg.seed, cfg.shard, j as u64, 7]);
        out.evaluations += 1;
        // every shard's first history (and one in eight after that) is the directed scenario
        if j == 0 && cfg.shard % 2 == 0 || j > 0 && seed % 8 == 0 {
            slot_exhaustion(seed, cfg, out, &mut log, slow);
            continue;
        }
        if let Some(msg) = hostile_history(seed, cfg, out, &mut log, slow) {
            let p = write_replay(
                cfg,
                &j.to_string(),
                &[("seed", seed.to_string()), ("mode", cfg.mode.clone()), ("message", msg.clone())],
                &format!("history {seed}"),
            );
            out.violations.push(ViolRec { message: msg, replay: p, signature: "C07:behaviour".to_string() });
            return;
        }
        if out.samples.len() < 2 {
            out.samples.push(J::s(&format!(
                "hostile history seed {seed}: legal prefix, one limit overrun, then a tainted phase (see c07 counters)"
            )));
        }
    }
    let _ = HexSpec::Canon(vec![]);
}

/// Deliberately wrong accesses in the harness's own code: the instrument must report them.
pub fn canary(kind: &str) -> i32 {
    match kind {
        "oob" => {
            let v: Vec<u8> = vec![1, 2, 3, 4, 5, 6, 7, 8];
            let p = v.as_ptr();
            let x = unsafe { std::ptr::read_volatile(p.add(8 + std::hint::black_box(0))) };
            println!("canary oob read {x}");
            0
        }
        "uninit" => {
            let b: Box<std::mem::MaybeUninit<[u8; 64]>> = Box::new(std::mem::MaybeUninit::uninit());
            let x = unsafe { std::ptr::read_volatile((b.as_ptr() as *const u8).add(std::hint::black_box(5))) };
            if std::hint::black_box(x) == 7 {
                println!("canary uninit seven");
            } else {
                println!("canary uninit other");
            }
            0
        }
        "subobj" => {
            #[repr(C)]
            struct S {
                items: [usize; 4],
                next: usize,
            }
            let mut s = S { items: [0; 4], next: 42 };
            unsafe {
                s.items.as_mut_ptr().add(std::hint::black_box(4)).write(7);
            }
            println!("canary subobj next={}", std::hint::black_box(s.next));
            0
        }
        "none" => {
            println!("canary none");
            0
        }
        _ => 3,
    }
}

pub fn replay(rp: &crate::shard::Replay, work: &std::path::Path) -> bool {
    let mut hit = false;
    for line in &rp.body {
        if let Some(seed) = line.strip_prefix("history ").and_then(|x| x.trim().parse::<u64>().ok()) {
            let cfg = ShardCfg {
                prop: "C07".into(),
                seed: 0,
                shard: 0,
                shards: 1,
                count: 1,
                thorough: true,
                work: work.to_path_buf(),
                replays: work.to_path_buf(),
                budget_s: 1e9,
                mode: rp.header.get("mode").cloned().unwrap_or_default(),
            };
            let mut out = ShardOut::new();
            let mut log = Log { f: None };
            let slow = matches!(cfg.mode.as_str(), "miri1" | "miri2" | "memcheck");
            match hostile_history(seed, &cfg, &mut out, &mut log, slow) {
                Some(m) => {
                    println!("VIOLATION reproduced: {m}");
                    hit = true;
                }
                None => println!("history {seed}: behavioural part holds natively (re-run under the sanitizer named in the replay header for memory reports)"),
            }
        }
    }
    hit
}
