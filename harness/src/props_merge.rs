//! C11 (tree merge grafts right onto left without loss, GC keeps working) and
//! C12 (merge never silently drops part of the right graph).

use crate::gen::{gen_data, label_universe, Gen, Profile};
use crate::hist::{Ctx, HistMonitor};
use crate::json::{Counters, J};
use crate::model::Model;
use crate::mon_gc::C01;
use crate::ops::{history_show, history_text, HexSpec, Op};
use crate::rec::{digest, first_diff, Ret, Session, O_EDGES, O_INSPECT, O_KEYS, O_TEXT};
use crate::rng::{mix, Rng};
use crate::shard::{write_replay, ShardCfg, ShardOut, ViolRec};
use crate::shim::new_graph;
use sodg::Label;
use std::collections::BTreeSet;

const FULL: u8 = O_KEYS | O_EDGES | O_TEXT | O_INSPECT;

pub struct MergeCase {
    pub n: usize,
    pub cap: usize,
    /// ops that build the left graph (any legal ops; the present part ends up a tree)
    pub g_ops: Vec<Op>,
    pub merge: Op,
    pub seed: u64,
}

/// All rooted ordered trees with exactly k vertices as parent arrays (vertex 0 is the root,
/// vertices numbered in pre-order).
fn trees(k: usize) -> Vec<Vec<usize>> {
    // parent[i] for i in 1..k, pre-order numbering: parent[i] is on the rightmost path of the prefix
    fn rec(k: usize, cur: &mut Vec<usize>, out: &mut Vec<Vec<usize>>) {
        if cur.len() == k {
            out.push(cur.clone());
            return;
        }
        // rightmost path of current tree: last vertex and its ancestors
        let mut p = cur.len() - 1;
        loop {
            cur.push(p);
            rec(k, cur, out);
            cur.pop();
            if p == 0 {
                break;
            }
            p = cur[p];
        }
    }
    let mut out = vec![];
    let mut cur = vec![0usize]; // cur[0] unused (root), parent of root = 0
    rec(k, &mut cur, &mut out);
    out
}

/// Ops building the tree given by `parent` on ids `ids`, child i of a vertex labelled labels[i];
/// data placement `dp[i]` in {0 none, 1 inline, 2 heap}; `put_first` puts before binds.
fn tree_ops(parent: &[usize], ids: &[usize], labels: &[Label], dp: &[u8], put_first: bool) -> Vec<Op> {
    let k = parent.len();
    let mut ops = vec![];
    let mut nchild = vec![0usize; k];
    let datum = |i: usize, kind: u8| -> Op {
        let len = match kind & 3 {
            1 => 1 + i % 8,
            2 => 9 + i,
            _ => 0, // a stored datum of zero bytes
        };
        Op::Put(ids[i], HexSpec::Canon((0..len).map(|x| (x * 7 + i * 31 + 1) as u8).collect()))
    };
    ops.push(Op::Add(ids[0]));
    if put_first && dp[0] != 0 {
        ops.push(datum(0, dp[0]));
    }
    for i in 1..k {
        ops.push(Op::Add(ids[i]));
        if put_first && dp[i] != 0 {
            ops.push(datum(i, dp[i]));
        }
        let p = parent[i];
        ops.push(Op::Bind(ids[p], ids[i], labels[nchild[p] % labels.len()]));
        nchild[p] += 1;
    }
    if !put_first {
        for i in 0..k {
            if dp[i] != 0 {
                ops.push(datum(i, dp[i]));
            }
        }
    }
    // data already read in this graph (kind >= 4): the read comes last; if it would collect
    // something the case falls outside the quantifier and is skipped by the legality check
    for i in 0..k {
        if dp[i] >= 4 {
            ops.push(Op::Data(ids[i]));
        }
    }
    ops
}

/// Facts check: is the real graph the one the model describes (vertices, edges, data held)?
fn graph_is(g: &dyn crate::shim::Graph, m: &Model) -> bool {
    if g.keys() != m.keys() {
        return false;
    }
    let real = crate::rec::real_data(g);
    m.verts.iter().all(|(v, x)| {
        let mut a = g.kids(*v);
        let mut b = x.edges.clone();
        a.sort();
        b.sort();
        a == b && real.get(v) == Some(&x.data)
    })
}

fn h_reachable(hm: &Model, right: usize) -> BTreeSet<usize> {
    let mut seen = BTreeSet::new();
    let mut todo = vec![right];
    while let Some(x) = todo.pop() {
        if !hm.present(x) || !seen.insert(x) {
            continue;
        }
        for (_, t) in &hm.verts[&x].edges {
            todo.push(*t);
        }
    }
    seen
}

/// Run one C11 case; returns (violation, nontrivial, stats json).
pub fn run_c11_case(case: &MergeCase, c: &mut Counters, work: &std::path::Path) -> (Option<String>, bool, Vec<Op>) {
    let mut s = Session::new(case.n, case.cap, work);
    let mut rng = Rng::new(case.seed);
    let mut trace = C01::default();
    let labels = crate::hist::labels_of(&[case.g_ops.clone(), vec![case.merge.clone()]].concat());
    let mut scratch = Counters::default();
    // interaction: an earlier merge, between two unrelated graphs on this thread, that was rightly
    // rejected (a forest). It must leave nothing behind that the merge under test could see.
    if mix(&[case.seed, 0xF411]) % 4 == 0 && case.cap >= 2 {
        let (n, cap) = (case.n, case.cap);
        let rejected = crate::rec::guarded(|| {
            let mut a = new_graph(n, cap);
            a.add(0);
            let mut f = new_graph(n, cap);
            f.add(0);
            f.add(cap - 1);
            a.merge(f.as_ref(), 0, 0).is_err()
        });
        match rejected {
            Ok(true) => c.inc("c11.cases-after-an-earlier-rejected-merge"),
            _ => c.inc("c11.earlier-forest-merge-not-rejected(C12's business)"),
        }
    }
    // build the left graph (the trace monitor follows from the start)
    // the twin receives the same calls and later the primitive add/bind/put calls the merge stands for
    let mut twin: Box<dyn crate::shim::Graph> = new_graph(case.n, case.cap);
    let mut uniq = 0u64;
    for op in &case.g_ops {
        if !s.m.legal(op) {
            continue;
        }
        let mut o = s.step(op);
        let tr = crate::rec::exec_raw(&mut twin, op, work, &mut uniq, &labels);
        if o.panic.is_some() || tr.is_err() || s.g.keys() != s.m.keys() {
            c.inc("c11.left-graph-build-diverged");
            return (None, false, s.ops);
        }
        let mut ctx = Ctx { c: &mut scratch, rng: &mut rng, labels: labels.clone() };
        let _ = trace.after(&mut s, op, &mut o, &mut ctx);
    }
    // facts first: the left graph as really built must be the one the case describes
    if !graph_is(s.g.as_ref(), &s.m) {
        c.inc("c11.left-graph-not-built-as-described(skipped)");
        return (None, false, s.ops);
    }
    let Op::Merge { h, left, right } = &case.merge else { return (None, false, s.ops) };
    // interaction: an earlier merge INTO THIS VERY left graph that is rightly rejected (a right graph made of a bare
    // root and one isolated vertex: nothing to add, Err for the vertex that cannot be reached). If it really changed
    // nothing that can be observed or stored (hook), the merge under test must not be able to tell that it happened.
    if mix(&[case.seed, 0xF412]) % 4 == 0 && case.cap >= 2 {
        let before = s.g.snapshot();
        let (n, cap) = (case.n, case.cap);
        let root = (mix(&[case.seed, 0xF413]) % cap as u64) as usize;
        let other = (root + 1 + (mix(&[case.seed, 0xF414]) % (cap as u64 - 1)) as usize) % cap;
        let l0 = *left;
        let g = &mut s.g;
        let rejected = crate::rec::guarded(|| {
            let mut f = new_graph(n, cap);
            f.add(root);
            f.add(other);
            g.merge(f.as_ref(), l0, root).is_err()
        });
        if rejected != Ok(true) || s.g.snapshot() != before || !graph_is(s.g.as_ref(), &s.m) {
            c.inc("c11.earlier-merge-into-the-left-graph-not-rejected-or-left-a-trace(skipped, C12's business)");
            return (None, false, s.ops);
        }
        c.inc("c11.cases-after-a-rejected-merge-into-the-same-left-graph");
    }
    let h_cap = crate::ops::h_capacity(case.cap, h);
    if h_cap > case.cap {
        c.inc("c11.right-graphs-with-a-larger-capacity-and-ids-beyond-the-left-one's");
    }
    let Some(hm) = Model::build(case.n, h_cap, h) else { return (None, false, s.ops) };
    let Some(plan) = s.m.plan_merge(&hm, *left, *right) else {
        c.inc("c11.case-outside-quantifier");
        return (None, false, s.ops);
    };
    let keys_g: Vec<usize> = s.g.keys();
    let g_before = s.m.clone();
    let expect_new = plan.verts.len() - s.m.verts.len();
    // overlap classification
    let overlap = hm.verts.len() - 1 - expect_new.min(hm.verts.len() - 1);
    let mut o = s.step(&case.merge);
    c.inc("c11.merges");
    if let Some((hg, hm2)) = &o.merge_h {
        // (the right graph is unchanged by a correct merge; if it was not even built as described
        //  the case is outside the quantifier; a change made BY merge is caught below against a twin of h)
        let _ = hg;
        {
            let mut h2 = new_graph(case.n, crate::ops::h_capacity(case.cap, h));
            let mut u2 = 0u64;
            for hop in h {
                let _ = crate::rec::exec_raw(&mut h2, hop, work, &mut u2, &labels);
            }
            if !graph_is(h2.as_ref(), hm2) {
                c.inc("c11.right-graph-not-built-as-described(skipped)");
                return (None, false, s.ops);
            }
        }
    }
    if let Some(p) = &o.panic {
        // as-if: do the same additions with public calls on the twin; if they panic as well the
        // defect is not merge's
        let t = &mut twin;
        let hm_ref = &hm;
        let r = crate::rec::guarded(|| {
            fn rec(t: &mut Box<dyn crate::shim::Graph>, h: &Model, l: usize, r: usize) {
                let hv = &h.verts[&r];
                if let Some(d) = &hv.data {
                    t.put(l, &sodg::Hex::from_vec(d.clone()));
                }
                for (a, to) in &hv.edges {
                    let m = match t.kid(l, *a) {
                        Some(x) => x,
                        None => {
                            let id = t.next_id();
                            t.add(id);
                            t.bind(l, id, *a);
                            id
                        }
                    };
                    rec(t, h, m, *to);
                }
            }
            rec(t, hm_ref, *left, *right);
        });
        if r.is_err() {
            c.inc("c11.merge-and-reference-calls-both-panic(skipped)");
            return (None, false, s.ops);
        }
        return (Some(format!("merge of two trees within the limits panicked: {p}")), false, s.ops);
    }
    if let Ret::Res(Err(e)) = &o.ret {
        return (Some(format!("merge of two trees returned Err: {e}")), false, s.ops);
    }
    // ---- facts about this very call
    if o.keys_before.iter().any(|v| !o.keys_after.contains(v)) {
        return (Some(format!("merge removed vertices: {:?} -> {:?}", o.keys_before, o.keys_after)), false, s.ops);
    }
    // the right graph is unchanged (compare with a freshly built twin of it)
    if let Some((hg, _)) = &o.merge_h {
        let mut h2 = new_graph(case.n, crate::ops::h_capacity(case.cap, h));
        let mut u2 = 0u64;
        for hop in h {
            let _ = crate::rec::exec_raw(&mut h2, hop, work, &mut u2, &labels);
        }
        let (a, b) = (digest(hg.as_ref(), FULL, &labels), digest(h2.as_ref(), FULL, &labels));
        if a != b {
            return (Some(format!("merge changed the right graph: {}", first_diff(&b, &a))), false, s.ops);
        }
        if hg.snapshot() != h2.snapshot() {
            c.inc("c11.right-graph-internal-state-changed(latent)");
        }
    }
    // ---- the reference: the documented algorithm made of public calls on the twin
    // ("descend along the existing kid, or next_id() + add() + bind(); put() the data"), so that
    // "as if the additions had been made by add/bind/put" is decided between two real graphs and a
    // defect of add/bind/put/next_id themselves cannot be blamed on merge
    {
        let t = &mut twin;
        let hm_ref = &hm;
        let r = crate::rec::guarded(|| {
            fn rec(t: &mut Box<dyn crate::shim::Graph>, h: &Model, l: usize, r: usize) {
                let hv = &h.verts[&r];
                if let Some(d) = &hv.data {
                    t.put(l, &sodg::Hex::from_vec(d.clone()));
                }
                for (a, to) in &hv.edges {
                    let m = match t.kid(l, *a) {
                        Some(x) => x,
                        None => {
                            let id = t.next_id();
                            t.add(id);
                            t.bind(l, id, *a);
                            id
                        }
                    };
                    rec(t, h, m, *to);
                }
            }
            rec(t, hm_ref, *left, *right);
        });
        if r.is_err() {
            c.inc("c11.reference-calls-panicked(skipped)");
            return (None, false, s.ops);
        }
    }
    // ---- compare merged graph and reference up to a renaming of the vertices on the right tree's paths
    // (merge is free to choose which fresh id goes where)
    let mut m2t: std::collections::BTreeMap<usize, usize> = std::collections::BTreeMap::new();
    let mut t2m: std::collections::BTreeMap<usize, usize> = std::collections::BTreeMap::new();
    {
        let mut todo = vec![(*right, *left, *left)];
        while let Some((hv, gm, gt)) = todo.pop() {
            if let Some(prev) = m2t.insert(gm, gt) {
                if prev != gt {
                    return (Some("two vertices of the right tree landed on the same vertex of the left graph".to_string()), false, s.ops);
                }
            }
            if let Some(prev) = t2m.insert(gt, gm) {
                if prev != gm {
                    return (Some("two vertices of the right tree landed on the same vertex of the left graph".to_string()), false, s.ops);
                }
            }
            for (l, to) in &hm.verts[&hv].edges {
                let km = crate::rec::guarded(|| s.g.kid(gm, *l)).ok().flatten();
                let kt = crate::rec::guarded(|| twin.kid(gt, *l)).ok().flatten();
                match (km, kt) {
                    (Some(a), Some(b)) => todo.push((*to, a, b)),
                    (None, Some(_)) => return (Some(format!("path lost: ν{gm} has no edge {l} after the merge")), false, s.ops),
                    _ => {
                        c.inc("c11.reference-lacks-a-path(skipped)");
                        return (None, false, s.ops);
                    }
                }
            }
        }
    }
    let map = |v: usize| m2t.get(&v).copied().unwrap_or(v);
    let same_now = |s: &Session, twin: &Box<dyn crate::shim::Graph>| -> Option<String> {
        let mut km: Vec<usize> = s.g.keys().into_iter().map(map).collect();
        km.sort_unstable();
        if km != twin.keys() {
            return Some(format!("vertices {:?}; built by the same add/bind/put calls: {:?}", s.g.keys(), twin.keys()));
        }
        let (dm, dt) = (crate::rec::real_data(s.g.as_ref()), crate::rec::real_data(twin.as_ref()));
        for v in s.g.keys() {
            let mut a: Vec<(String, usize)> = s.g.kids(v).iter().map(|(l, t)| (crate::ops::label_text(l), map(*t))).collect();
            let mut b: Vec<(String, usize)> = twin.kids(map(v)).iter().map(|(l, t)| (crate::ops::label_text(l), *t)).collect();
            a.sort();
            b.sort();
            if a != b {
                return Some(format!("edges of ν{v}: {a:?}; built by the same add/bind/put calls: {b:?}"));
            }
            if dm.get(&v) != dt.get(&map(v)) {
                return Some(format!(
                    "data of ν{v}: {:?}; built by the same add/bind/put calls: {:?}",
                    dm.get(&v).cloned().flatten().map(|d| crate::ops::hex(&d)),
                    dt.get(&map(v)).cloned().flatten().map(|d| crate::ops::hex(&d))
                ));
            }
        }
        None
    };
    match crate::rec::guarded(|| same_now(&s, &twin)) {
        Ok(Some(m)) => return (Some(format!("after merge: {m}")), false, s.ops),
        Ok(None) => {}
        Err(_) => {
            c.inc("c11.query-panicked(skipped)");
            return (None, false, s.ops);
        }
    }
    // the model-based description of the result is only a counter now (a difference here with an
    // agreeing reference means the defect is not merge's)
    if o.adopt_error.is_some() || s.g.keys().len() != keys_g.len() + expect_new {
        c.inc("c11.model-differs-but-reference-agrees");
    }
    {
        let mut ctx = Ctx { c: &mut scratch, rng: &mut rng, labels: labels.clone() };
        let _ = trace.after(&mut s, &case.merge, &mut o, &mut ctx);
    }
    if s.g.keys() != s.m.keys() || o.adopt_error.is_some() {
        let snap = s.g.snapshot();
        s.m.resync(&snap);
    }
    let _ = &g_before;
    // ---- continuation of reads in lock-step (ids of the reference through the renaming)
    let mut died = false;
    let mut order: Vec<usize> = s.m.verts.iter().filter(|(_, x)| x.data.is_some()).map(|(v, _)| *v).collect();
    rng.shuffle(&mut order);
    let mut reads: Vec<usize> = vec![];
    for v in &order {
        reads.push(*v);
        if rng.chance(1, 3) {
            reads.push(*v);
        }
    }
    reads.extend(order.iter().copied());
    for v in reads {
        if !s.m.present(v) || !s.g.keys().contains(&v) {
            continue;
        }
        let op = Op::Data(v);
        let mut o = s.step(&op);
        c.inc("c11.continuation-reads");
        let tr = crate::rec::exec_raw(&mut twin, &Op::Data(map(v)), work, &mut uniq, &labels);
        match (&o.panic, &tr) {
            (Some(_), Err(_)) => return (None, false, s.ops),
            (Some(p), Ok(_)) => return (Some(format!("after the merge, data({v}) panicked ({p}); on the graph built by the same add/bind/put calls it does not")), false, s.ops),
            (None, Err(p)) => return (Some(format!("after the merge, data({v}) panics ({p}) only on the graph built by direct calls")), false, s.ops),
            (None, Ok(r)) => {
                if *r != o.ret {
                    return (
                        Some(format!("after the merge, data({v}) returned {:?}; on the graph built by the same add/bind/put calls it returns {:?}", o.ret, r)),
                        false,
                        s.ops,
                    );
                }
            }
        }
        if o.keys_after.len() < o.keys_before.len() {
            died = true;
        }
        {
            let mut ctx = Ctx { c: &mut scratch, rng: &mut rng, labels: labels.clone() };
            if trace.after(&mut s, &op, &mut o, &mut ctx).is_some() {
                c.inc("c11.c01-rule-broken-in-continuation(judged-against-reference)");
            }
        }
        match crate::rec::guarded(|| same_now(&s, &twin)) {
            Ok(Some(m)) => return (Some(format!("after the merge and data({v}): {m}")), false, s.ops),
            Ok(None) => {}
            Err(_) => return (None, false, s.ops),
        }
        if s.g.keys() != s.m.keys() {
            c.inc("c11.model-differs-but-reference-agrees");
            let snap = s.g.snapshot();
            s.m.resync(&snap);
        }
    }
    let h_has_data_on_overlap = hm.verts.iter().any(|(_, x)| x.data.is_some());
    let nontrivial = overlap >= 1 && expect_new >= 1 && h_has_data_on_overlap && died;
    (None, nontrivial, s.ops)
}

fn gen_c11_case(seed: u64, thorough: bool) -> MergeCase {
    let mut rng = Rng::new(seed);
    let n = *rng.pick(&[2usize, 3, 4, 4, 8, 16]);
    // one case in three runs in a graph that the result (almost) fills up
    let tight = rng.chance(1, 3);
    let cap = if tight { rng.range(3, 14) } else { *rng.pick(&[16usize, 24, 40, 64, 256]) };
    let labels = label_universe(&mut rng, n.min(4).max(2));
    let mut g_ops: Vec<Op> = vec![];
    // optional GC history first: groups that live and die, allocator ahead
    if rng.chance(1, 2) && !tight {
        let mut gen = Gen::new(rng.next(), Profile::Churn, n, cap);
        let _ = &mut gen;
        let k = rng.range(1, 3);
        for j in 0..k {
            let a = (j * 2) % cap;
            let b = (j * 2 + 1) % cap;
            g_ops.push(Op::Add(a));
            g_ops.push(Op::Add(b));
            g_ops.push(Op::Bind(a, b, labels[0]));
            g_ops.push(Op::Put(b, gen_data(&mut rng, true)));
            g_ops.push(Op::Data(b));
        }
        for _ in 0..rng.below(4) {
            g_ops.push(Op::NextId);
        }
    }
    // the left tree
    let max_v = if thorough { 12 } else { 9 };
    let gk = if tight { rng.range(1, (cap * 2 / 3).max(1)) } else { rng.range(1, max_v.min(cap / 3).max(1)) };
    let gt = random_parent(&mut rng, gk, n);
    let mut ids: Vec<usize> = vec![];
    while ids.len() < gk {
        let v = rng.below(cap);
        if !ids.contains(&v) {
            ids.push(v);
        }
    }
    let dp: Vec<u8> = (0..gk).map(|_| *rng.pick(&[0u8, 0, 1, 2, 3, 6])).collect();
    g_ops.extend(tree_ops(&gt, &ids, &labels, &dp, rng.chance(1, 2)));
    // some data of g already read
    for (i, v) in ids.iter().enumerate() {
        if dp[i] != 0 && rng.chance(1, 5) && gk == 1 {
            g_ops.push(Op::Data(*v));
        }
    }
    let left = ids[rng.below(gk)];
    // the right tree: overlaps with the subtree at left by using the same child-label scheme
    let hk = if tight { rng.range(1, cap.min(max_v)) } else { rng.range(1, max_v.min(cap / 3).max(1)) };
    let ht = random_parent(&mut rng, hk, n);
    let mut hids: Vec<usize> = vec![];
    // one right graph in four has a larger capacity than the left one and uses ids beyond it
    let h_span = if rng.chance(1, 4) { cap + rng.range(1, 40) } else { cap };
    while hids.len() < hk {
        let v = if h_span > cap && rng.chance(1, 2) { rng.range(cap, h_span - 1) } else { rng.below(cap) };
        if !hids.contains(&v) {
            hids.push(v);
        }
    }
    let hlabels = if rng.chance(2, 3) {
        labels.clone()
    } else {
        let mut l = labels.clone();
        l.rotate_left(1);
        l
    };
    let hdp: Vec<u8> = (0..hk).map(|_| *rng.pick(&[0u8, 1, 2, 1, 2, 3, 5, 6, 7])).collect();
    let h = tree_ops(&ht, &hids, &hlabels, &hdp, rng.chance(1, 2));
    MergeCase { n, cap, g_ops, merge: Op::Merge { h, left, right: hids[0] }, seed: rng.next() }
}

/// Big trees (17..30 vertices): more vertices than one group can hold, so they must be assembled
/// from sub-trees that became groups on their own and are linked under a common root afterwards
/// (a bind between two grouped vertices moves nobody). The left graph holds the same shape on
/// other ids, minus a few leaves, so that the merge stays within the group limits.
fn gen_big_case(seed: u64) -> MergeCase {
    let mut rng = Rng::new(seed);
    let n = *rng.pick(&[4usize, 8, 16]);
    let cap = *rng.pick(&[80usize, 128, 256]);
    let subs = rng.range(3, n.min(4));
    let labels: Vec<Label> = (0..8).map(Label::Alpha).collect();
    // shape: sub-tree i is a chain/star of size_i vertices
    let sizes: Vec<usize> = (0..subs).map(|_| rng.range(5, 7)).collect();
    let shapes: Vec<Vec<usize>> = sizes.iter().map(|k| random_parent(&mut rng, *k, 3.min(n))).collect();
    let build = |rng: &mut Rng, base: usize, drop_leaves: usize, with_data: bool| -> (Vec<Op>, usize) {
        let mut ops = vec![];
        let mut next = base;
        let mut roots = vec![];
        let mut dropped = 0;
        for (si, shape) in shapes.iter().enumerate() {
            let k = shape.len();
            let ids: Vec<usize> = (0..k).map(|i| next + i).collect();
            next += k;
            // leaves of this sub-tree
            let is_leaf: Vec<bool> = (0..k).map(|i| !shape.iter().skip(1).any(|p| *p == i) && i != 0).collect();
            let mut skip = vec![false; k];
            for i in (1..k).rev() {
                if is_leaf[i] && dropped < drop_leaves && si % 2 == 0 {
                    skip[i] = true;
                    dropped += 1;
                    break;
                }
            }
            let mut nchild = vec![0usize; k];
            ops.push(Op::Add(ids[0]));
            for i in 1..k {
                let p = shape[i];
                let l = labels[nchild[p] % labels.len()];
                nchild[p] += 1;
                if skip[i] {
                    continue;
                }
                ops.push(Op::Add(ids[i]));
                ops.push(Op::Bind(ids[p], ids[i], l));
            }
            if with_data {
                for i in 0..k {
                    if !skip[i] && rng.chance(1, 3) {
                        ops.push(Op::Put(ids[i], HexSpec::Canon(vec![si as u8, i as u8, 9, 9, 9, 9, 9, 9, 9, 9])));
                    }
                }
            }
            roots.push(ids[0]);
        }
        let root = next;
        ops.push(Op::Add(root));
        for (i, r) in roots.iter().enumerate() {
            ops.push(Op::Bind(root, *r, labels[(i + 4) % labels.len()]));
        }
        (ops, root)
    };
    let (g_ops, left) = build(&mut rng, 0, 2, true);
    let (h, right) = build(&mut rng, 40, 0, true);
    MergeCase { n, cap, g_ops, merge: Op::Merge { h, left, right }, seed: rng.next() }
}

fn random_parent(rng: &mut Rng, k: usize, n: usize) -> Vec<usize> {
    let mut parent = vec![0usize; k];
    let mut deg = vec![0usize; k];
    for i in 1..k {
        let mut p = rng.below(i);
        let mut tries = 0;
        while deg[p] >= n && tries < 50 {
            p = rng.below(i);
            tries += 1;
        }
        if deg[p] >= n {
            p = (0..i).find(|x| deg[*x] < n).unwrap_or(0);
        }
        parent[i] = p;
        deg[p] += 1;
    }
    parent
}

fn report_c11(cfg: &ShardCfg, out: &mut ShardOut, case: &MergeCase, msg: String, ops: &[Op], tag: &str) {
    let mut all = ops.to_vec();
    if !all.iter().any(|o| matches!(o, Op::Merge { .. })) {
        all.push(case.merge.clone());
    }
    let p = write_replay(
        cfg,
        tag,
        &[("n", case.n.to_string()), ("cap", case.cap.to_string()), ("seed", case.seed.to_string()), ("message", msg.clone())],
        &history_text(&all),
    );
    out.violations.push(ViolRec { message: format!("{msg} [N={} cap={}]", case.n, case.cap), replay: p, signature: "C11".to_string() });
}

pub fn run_c11(cfg: &ShardCfg, out: &mut ShardOut) {
    // part 1: small-scope sweep (all ordered trees, all data placements)
    let hmax = if cfg.thorough { 5 } else { 4 };
    let gmax = 3;
    let labels = [Label::Alpha(0), Label::Alpha(1), Label::Greek('ρ'), crate::ops::str_label("foo"), Label::Alpha(4)];
    let mut k = 0u64;
    'sweep: for gk in 1..=gmax {
        for gt in trees(gk) {
            for hk in 1..=hmax {
                for ht in trees(hk) {
                    for left_i in 0..gk {
                        let kinds: usize = if hk <= 3 { 5 } else { 3 }; // none, inline, heap (+ empty, + heap already read)
                        let places = kinds.pow(hk as u32);
                        for dcode in 0..places {
                            k += 1;
                            if k % cfg.shards != cfg.shard {
                                continue;
                            }
                            if out.out_of_time(cfg) {
                                out.counters.inc("sweep-stopped-by-budget");
                                break 'sweep;
                            }
                            let hdp: Vec<u8> = (0..hk)
                                .map(|i| match (dcode / kinds.pow(i as u32)) % kinds {
                                    4 => 6, // heap datum, read before the merge
                                    x => x as u8,
                                })
                                .collect();
                            let gids: Vec<usize> = (0..gk).map(|i| 3 + i * 2).collect();
                            let hids: Vec<usize> = (0..hk).map(|i| 20 - i).collect();
                            // left graph: data on every vertex (unread at graft points) for even codes, none for odd
                            let gdp: Vec<u8> = (0..gk).map(|i| if (dcode + i) % 2 == 0 { 2 } else { 0 }).collect();
                            let g_ops = tree_ops(&gt, &gids, &labels, &gdp, dcode % 4 < 2);
                            let h = tree_ops(&ht, &hids, &labels, &hdp, dcode % 3 == 0);
                            let case = MergeCase {
                                n: 4,
                                cap: 24,
                                g_ops,
                                merge: Op::Merge { h, left: gids[left_i], right: hids[0] },
                                seed: k,
                            };
                            let mut stray = crate::json::Counters::default();
                            let Some((v, nt, ops)) = crate::shard::case_guard(&mut stray, || run_c11_case(&case, &mut out.counters, &cfg.work)) else {
                                out.counters.inc("case.abandoned-by-stray-panic-from-code-under-test");
                                continue;
                            };
                            out.evaluations += 1;
                            out.counters.inc("c11.sweep-cases");
                            out.calls += ops.len() as u64;
                            if nt {
                                out.nontrivial.insert(crate::hist::ops_hash(4, 24, &ops));
                            }
                            if let Some(msg) = v {
                                report_c11(cfg, out, &case, msg, &ops, &format!("sweep{k}"));
                                return;
                            }
                        }
                    }
                }
            }
        }
    }
    out.extra = J::obj().with("sweep", J::s(&format!("all ordered trees: left <= {gmax} vertices x every left vertex, right <= {hmax} vertices x all data placements over none/inline/heap (+ zero-length, + already-read heap for right trees <= 3 vertices)")));
    // part 1b: big trees spanning several groups (more than 16 vertices in the right tree)
    for j in 0..(cfg.count / 20).max(8) {
        if out.out_of_time(cfg) {
            break;
        }
        let case = gen_big_case(mix(&[cfg.seed, cfg.shard, j as u64, 1111]));
        let mut stray = crate::json::Counters::default();
        let Some((v, nt, ops)) = crate::shard::case_guard(&mut stray, || run_c11_case(&case, &mut out.counters, &cfg.work)) else {
            out.counters.inc("case.abandoned-by-stray-panic-from-code-under-test");
            continue;
        };
        out.evaluations += 1;
        out.calls += ops.len() as u64;
        out.counters.inc("c11.big-tree-cases");
        if nt {
            out.nontrivial.insert(crate::hist::ops_hash(case.n, case.cap, &ops));
        }
        if let Some(msg) = v {
            report_c11(cfg, out, &case, msg, &ops, &format!("big{j}"));
            return;
        }
    }
    // part 2: random larger trees with GC history
    for j in 0..cfg.count {
        if out.out_of_time(cfg) {
            out.counters.inc("stopped-by-budget");
            break;
        }
        let case = gen_c11_case(mix(&[cfg.seed, cfg.shard, j as u64, 11]), cfg.thorough);
        let mut stray = crate::json::Counters::default();
        let Some((v, nt, ops)) = crate::shard::case_guard(&mut stray, || run_c11_case(&case, &mut out.counters, &cfg.work)) else {
            out.counters.inc("case.abandoned-by-stray-panic-from-code-under-test");
            continue;
        };
        out.evaluations += 1;
        out.calls += ops.len() as u64;
        out.configs.insert((case.n, case.cap));
        if nt {
            out.nontrivial.insert(crate::hist::ops_hash(case.n, case.cap, &ops));
            if out.samples.len() < 3 {
                out.samples.push(J::obj().with("N", J::i(case.n)).with("cap", J::i(case.cap)).with("history", J::s(&history_show(&ops, 40))));
            }
        }
        if let Some(msg) = v {
            report_c11(cfg, out, &case, msg, &ops, &j.to_string());
            return;
        }
    }
}

// ------------------------------------------------------------------------------------ C12

pub fn run_c12_case(n: usize, cap: usize, g_ops: &[Op], h: &[Op], left: usize, right: usize, c: &mut Counters) -> (Option<String>, bool) {
    // hand-overs inside h (the right graph goes on as a slice from its root / as a clone of itself)
    // leave vertices and edges as they are: the description of h is the one without them
    let h_plain: Vec<Op> = h.iter().filter(|o| !matches!(o, Op::Slice(_) | Op::Clone { .. })).cloned().collect();
    let handed_over = h_plain.len() != h.len();
    let Some(hm) = Model::build(n, cap, &h_plain) else { return (None, false) };
    let Some(gm) = Model::build(n, cap, g_ops) else { return (None, false) };
    if !gm.present(left) || !hm.present(right) {
        return (None, false);
    }
    let reach = h_reachable(&hm, right);
    let missed: Vec<usize> = hm.keys().into_iter().filter(|v| !reach.contains(v)).collect();
    // the reachable part must be mergeable within the limits: plan it on a copy of h restricted to reach
    let mut hr = hm.clone();
    for v in &missed {
        hr.verts.remove(v);
    }
    if gm.plan_merge(&hr, left, right).is_none() {
        c.inc("c12.case-outside-quantifier");
        return (None, false);
    }
    let pre_reject = (g_ops.len() + h.len() * 5 + left + right * 3) % 4 == 0;
    if pre_reject {
        c.inc("c12.cases-after-a-rejected-merge-into-the-same-left-graph");
    }
    let r = crate::rec::guarded(|| {
        let mut g = new_graph(n, cap);
        let mut hg = new_graph(n, cap);
        for (gr, ops) in [(&mut g, g_ops), (&mut hg, h)] {
            for op in ops {
                match op {
                    Op::Add(v) => gr.add(*v),
                    Op::Bind(a, b, l) => gr.bind(*a, *b, *l),
                    Op::Put(v, d) => gr.put(*v, &d.to_hex()),
                    Op::Data(v) => {
                        let _ = gr.data(*v);
                    }
                    Op::Slice(v) => {
                        if gr.keys().contains(v) {
                            if let Ok(sl) = gr.slice(*v) {
                                *gr = sl;
                            }
                        }
                    }
                    Op::Clone { .. } => *gr = gr.clone_box(),
                    _ => {}
                }
            }
        }
        let hk = hg.keys();
        // facts first: both graphs as really built must be the ones the case describes
        let same = |gr: &Box<dyn crate::shim::Graph>, m: &Model| -> bool {
            gr.keys() == m.keys()
                && m.verts.iter().all(|(v, x)| {
                    let mut a = gr.kids(*v);
                    let mut b = x.edges.clone();
                    a.sort();
                    b.sort();
                    a == b
                })
        };
        if !same(&g, &gm) || !same(&hg, &hm) {
            return (Ok(()), vec![usize::MAX]);
        }
        // one case in four: the same left graph has rightly rejected another merge just before (bare root + one
        // isolated vertex); whatever that call kept for itself must not change what Ok and Err mean now
        if pre_reject && cap >= 2 {
            let root = (left * 7 + right * 3 + h.len()) % cap;
            let other = (root + 1 + (left + h.len()) % (cap - 1)) % cap;
            let mut f = new_graph(n, cap);
            f.add(root);
            f.add(other);
            let r0 = g.merge(f.as_ref(), left, root);
            if r0.is_ok() || !same(&g, &gm) {
                return (Ok(()), vec![usize::MAX]);
            }
        }
        (g.merge(hg.as_ref(), left, right), hk)
    });
    c.inc("c12.merges");
    if handed_over {
        c.inc("c12.right-graphs-that-went-through-slice()/clone()");
    }
    let nontrivial = !missed.is_empty();
    match r {
        Err(_) => {
            // the statement is about what Ok and Err mean; a panic is neither and is not judged here
            // (C11 owns "merge of trees does not panic")
            c.inc("c12.merge-panicked(not-judged)");
            (None, false)
        }
        Ok((res, hkeys)) => {
            if hkeys != hm.keys() {
                c.inc("c12.graphs-not-built-as-described(skipped)");
                return (None, false);
            }
            match res {
                Ok(()) => {
                    if missed.is_empty() {
                        c.inc("c12.control-ok");
                        (None, false)
                    } else {
                        (
                            Some(format!(
                                "merge returned Ok although the present vertices {missed:?} of the right graph cannot be reached from ν{right} and were not mapped"
                            )),
                            nontrivial,
                        )
                    }
                }
                Err(e) => {
                    if missed.is_empty() {
                        return (Some(format!("merge of a complete right tree returned Err: {e}")), false);
                    }
                    c.inc("c12.err-as-required");
                    let named: BTreeSet<usize> = e
                        .split('ν')
                        .skip(1)
                        .filter_map(|x| {
                            let d: String = x.chars().take_while(char::is_ascii_digit).collect();
                            d.parse().ok()
                        })
                        .collect();
                    for v in &missed {
                        if !named.contains(v) {
                            return (Some(format!("merge returned Err but does not name the missed vertex ν{v}: {e}")), nontrivial);
                        }
                    }
                    // ... and names as missed only vertices it missed: a vertex that can be reached from `right` was
                    // mapped. (Read from the part of the text after the last "missed", which is where the list stands;
                    // a text without that word is not examined for this.)
                    if let Some((_, tail)) = e.rsplit_once("missed") {
                        let listed: BTreeSet<usize> = tail
                            .split('ν')
                            .skip(1)
                            .filter_map(|x| {
                                let d: String = x.chars().take_while(char::is_ascii_digit).collect();
                                d.parse().ok()
                            })
                            .collect();
                        c.inc("c12.err-lists-examined-for-vertices-that-were-not-missed");
                        for v in &listed {
                            if reach.contains(v) {
                                return (
                                    Some(format!(
                                        "merge returned Err and lists ν{v} as missed, although ν{v} can be reached from ν{right} and was mapped: {e}"
                                    )),
                                    nontrivial,
                                );
                            }
                        }
                    }
                    (None, nontrivial)
                }
            }
        }
    }
}

pub fn run_c12(cfg: &ShardCfg, out: &mut ShardOut) {
    for j in 0..cfg.count {
        if out.out_of_time(cfg) {
            out.counters.inc("stopped-by-budget");
            break;
        }
        let mut rng = Rng::new(mix(&[cfg.seed, cfg.shard, j as u64, 12]));
        let n = *rng.pick(&[2usize, 4, 8, 16]);
        let cap = *rng.pick(&[32usize, 64, 256]);
        let labels = label_universe(&mut rng, n.min(4).max(2));
        // left tree
        let gk = rng.range(1, 6);
        let gt = random_parent(&mut rng, gk, n);
        let gids: Vec<usize> = distinct_ids(&mut rng, gk, cap);
        let gdp: Vec<u8> = (0..gk).map(|_| *rng.pick(&[0u8, 0, 1, 2])).collect();
        let g_ops = tree_ops(&gt, &gids, &labels, &gdp, false);
        let left = gids[rng.below(gk)];
        // right: a main tree ...
        let hk = rng.range(1, 7);
        let ht = random_parent(&mut rng, hk, n);
        let mut all_ids = distinct_ids(&mut rng, hk + 12, cap);
        let hids: Vec<usize> = all_ids.drain(..hk).collect();
        let hdp: Vec<u8> = (0..hk).map(|_| *rng.pick(&[0u8, 1, 2])).collect();
        let mut h = tree_ops(&ht, &hids, &labels, &hdp, rng.chance(1, 2));
        let mut big_detached = false;
        // interaction: the right graph is handed over (slice from its root, which keeps all of it, or a
        // clone) before anything gets detached
        if rng.chance(1, 3) {
            h.push(if rng.chance(2, 3) { Op::Slice(hids[0]) } else { Op::Clone { swap: true } });
        }
        // an edge of the main tree re-pointed to a descendant of its target, without any new vertex: the
        // vertices in between are detached (and keep their edges into the part that stays reachable)
        if hk >= 3 && rng.chance(1, 4) {
            let i = rng.range(1, hk - 1);
            let below: Vec<usize> = (0..hk)
                .filter(|j| {
                    let mut x = *j;
                    while x != 0 && x != i {
                        x = ht[x];
                    }
                    x == i && *j != i
                })
                .collect();
            let edge = h.iter().find_map(|o| match o {
                Op::Bind(a, b, l) if *b == hids[i] => Some((*a, *l)),
                _ => None,
            });
            if let (Some((a, l)), false) = (edge, below.is_empty()) {
                let d = *rng.pick(&below);
                h.push(Op::Bind(a, hids[d], l));
                big_detached = true;
            }
        }
        // ... plus extras: isolated vertices (with/without data), detached sub-trees
        let extras = rng.below(7);
        for _ in 0..extras {
            if all_ids.is_empty() {
                break;
            }
            if hk >= 2 && rng.chance(1, 4) {
                // an existing edge of the main tree re-pointed to a new vertex: the old sub-tree is detached
                let i = rng.range(1, hk - 1);
                let edge = h.iter().find_map(|o| match o {
                    Op::Bind(a, b, l) if *b == hids[i] => Some((*a, *l)),
                    _ => None,
                });
                if let Some((a, l)) = edge {
                    let w = all_ids.pop().unwrap();
                    h.push(Op::Add(w));
                    h.push(Op::Bind(a, w, l));
                    big_detached = true;
                }
                continue;
            }
            if rng.chance(1, 2) {
                let v = all_ids.pop().unwrap();
                h.push(Op::Add(v));
                if rng.chance(1, 2) {
                    h.push(Op::Put(v, gen_data(&mut rng, true)));
                }
            } else {
                let k = rng.range(2, 4).min(all_ids.len());
                if k < 2 {
                    continue;
                }
                let ids: Vec<usize> = all_ids.drain(..k).collect();
                let t = random_parent(&mut rng, k, n);
                let dp: Vec<u8> = (0..k).map(|_| *rng.pick(&[0u8, 1, 2])).collect();
                h.extend(tree_ops(&t, &ids, &labels, &dp, false));
                big_detached = true;
            }
        }
        // right below h's root: the ancestors are missed
        let right_i = if rng.chance(1, 3) { rng.below(hk) } else { 0 };
        let right = hids[right_i];
        if right_i != 0 {
            big_detached = true;
        }
        let (v, nt) = run_c12_case(n, cap, &g_ops, &h, left, right, &mut out.counters);
        out.evaluations += 1;
        out.configs.insert((n, cap));
        let case_ops = [g_ops.clone(), vec![Op::Merge { h: h.clone(), left, right }]].concat();
        if nt && big_detached {
            out.nontrivial.insert(crate::hist::ops_hash(n, cap, &case_ops));
            if out.samples.len() < 3 {
                out.samples.push(J::obj().with("N", J::i(n)).with("cap", J::i(cap)).with("case", J::s(&history_show(&case_ops, 40))));
            }
        }
        if let Some(msg) = v {
            let p = write_replay(
                cfg,
                &j.to_string(),
                &[("n", n.to_string()), ("cap", cap.to_string()), ("message", msg.clone())],
                &history_text(&case_ops),
            );
            out.violations.push(ViolRec { message: format!("{msg} [N={n} cap={cap}]"), replay: p, signature: "C12".to_string() });
            return;
        }
    }
}

fn distinct_ids(rng: &mut Rng, k: usize, cap: usize) -> Vec<usize> {
    let mut ids = vec![];
    while ids.len() < k.min(cap) {
        let v = rng.below(cap);
        if !ids.contains(&v) {
            ids.push(v);
        }
    }
    ids
}

pub fn replay(rp: &crate::shard::Replay, work: &std::path::Path) -> bool {
    let get = |k: &str| rp.header.get(k).cloned().unwrap_or_default();
    let n: usize = get("n").parse().unwrap_or(4);
    let cap: usize = get("cap").parse().unwrap_or(24);
    let seed: u64 = get("seed").parse().unwrap_or(1);
    let mut ops: Vec<Op> = rp.body.iter().filter_map(|l| Op::parse(l)).collect();
    let Some(mi) = ops.iter().position(|o| matches!(o, Op::Merge { .. })) else {
        println!("no merge in the replay");
        return false;
    };
    let merge = ops.remove(mi);
    ops.truncate(mi);
    let mut c = Counters::default();
    let msg = if rp.prop == "C11" {
        let case = MergeCase { n, cap, g_ops: ops, merge, seed };
        run_c11_case(&case, &mut c, work).0
    } else {
        let Op::Merge { h, left, right } = &merge else { unreachable!() };
        run_c12_case(n, cap, &ops, h, *left, *right, &mut c).0
    };
    match msg {
        Some(m) => {
            println!("VIOLATION reproduced: {m}");
            true
        }
        None => {
            println!("no violation on this tree");
            false
        }
    }
}
