//! Pure-function sweeps: C15 (Hex accessors), C16 (concat), C17 (labels).
//! The oracle is the byte slice / the string itself.

use crate::json::J;
use crate::ops::{hex, label_text, spec_label, str_label, HexSpec};
use crate::rec::guarded;
use crate::rng::{mix, Fnv, Rng};
use crate::shard::{write_replay, ShardCfg, ShardOut, ViolRec};
use crate::shim::new_graph;
use sodg::{Hex, Label};
use std::collections::BTreeMap;
use std::str::FromStr;

fn contents(rng: &mut Rng, len: usize) -> Vec<Vec<u8>> {
    let mut v = vec![vec![0u8; len], vec![0xFFu8; len], (0..len).map(|i| (i * 17 + 1) as u8).collect::<Vec<u8>>()];
    for _ in 0..3 {
        v.push(rng.bytes(len));
    }
    v.dedup();
    v
}

fn reprs(rng: &mut Rng, b: &[u8]) -> Vec<(HexSpec, &'static str)> {
    let mut out = vec![(HexSpec::Canon(b.to_vec()), "from_vec"), (HexSpec::Vector(b.to_vec()), "Vector")];
    // values that come out of other API calls (the representation is whatever those calls leave behind)
    out.push((HexSpec::Tail(1, b.to_vec()), "tail(1)-of-longer"));
    out.push((HexSpec::Tail(9, b.to_vec()), "tail(9)-of-longer"));
    out.push((HexSpec::Parsed(b.to_vec()), "from_str(print)"));
    if !b.is_empty() {
        out.push((HexSpec::Cat(b.len() / 2, b.to_vec()), "Vector.concat(inline)"));
    }
    if b.len() <= 8 {
        for (pad, name) in [(0x00u8, "Bytes/pad00"), (0xFF, "Bytes/padFF")] {
            let mut a = [pad; 8];
            a[..b.len()].copy_from_slice(b);
            out.push((HexSpec::Bytes(a, b.len()), name));
        }
        let mut a = [0u8; 8];
        for x in a.iter_mut() {
            *x = (rng.next() & 0xFF) as u8;
        }
        a[..b.len()].copy_from_slice(b);
        out.push((HexSpec::Bytes(a, b.len()), "Bytes/padRandom"));
    }
    out
}

fn expected_print(b: &[u8]) -> String {
    if b.is_empty() {
        "--".to_string()
    } else {
        b.iter().map(|x| format!("{x:02X}")).collect::<Vec<_>>().join("-")
    }
}

struct Sweep<'a> {
    cfg: &'a ShardCfg,
    out: &'a mut ShardOut,
    viol_count: BTreeMap<String, u64>,
}

impl Sweep<'_> {
    fn eval(&mut self, boundary: bool, key: &str) {
        self.out.evaluations += 1;
        if boundary {
            let mut f = Fnv::new();
            f.write_str(key);
            self.out.nontrivial.insert(f.0);
        }
    }
    fn violation(&mut self, sig: &str, msg: String, body: String) {
        let n = self.viol_count.entry(sig.to_string()).or_insert(0);
        *n += 1;
        if *n > 1 {
            return;
        }
        let tag = format!("{}", self.out.violations.len());
        let path = write_replay(self.cfg, &tag, &[("message", msg.clone())], &body);
        self.out.violations.push(ViolRec { message: msg, replay: path, signature: sig.to_string() });
    }
    fn finish(&mut self) {
        for (sig, n) in &self.viol_count {
            self.out.counters.add(&format!("violating-instances.{sig}"), *n);
        }
    }
}

/// Compare outcome (value or panic) of an accessor on the Hex with the same operation on the slice.
fn same_outcome<T: PartialEq + std::fmt::Debug>(
    real: Result<T, String>,
    want: Result<T, String>,
) -> Result<(), String> {
    match (real, want) {
        (Ok(a), Ok(b)) => {
            if a == b {
                Ok(())
            } else {
                Err(format!("returned {a:?}, the byte slice gives {b:?}"))
            }
        }
        (Err(_), Err(_)) => Ok(()),
        (Ok(a), Err(_)) => Err(format!("returned {a:?} where the byte slice panics")),
        (Err(p), Ok(b)) => Err(format!("panicked ({p}) where the byte slice gives {b:?}")),
    }
}

// ------------------------------------------------------------------------------------ C15

pub fn check_hex_case(spec: &HexSpec, acc: &str, i: usize, j: usize) -> Result<(), String> {
    let b = spec.bytes();
    let h = spec.to_hex();
    match acc {
        "bytes" => same_outcome(guarded(|| h.bytes().to_vec()), Ok(b.clone())),
        "len" => same_outcome(guarded(|| h.len()), Ok(b.len())),
        "is_empty" => same_outcome(guarded(|| h.is_empty()), Ok(b.is_empty())),
        "to_vec" => same_outcome(guarded(|| h.to_vec()), Ok(b.clone())),
        "print" => same_outcome(guarded(|| h.print()), Ok(expected_print(&b))),
        "display" => same_outcome(guarded(|| format!("{h}")), Ok(expected_print(&b))),
        "debug" => same_outcome(guarded(|| format!("{h:?}")), Ok(expected_print(&b))),
        "byte_at" => same_outcome(guarded(|| h.byte_at(i)), guarded(|| b[i])),
        "index" => same_outcome(guarded(|| h[i]), guarded(|| b[i])),
        "index_mut" => {
            let mut h2 = h.clone();
            let mut b2 = b.clone();
            let r = guarded(|| {
                h2[i] = 0x5A;
            });
            let w = guarded(|| {
                b2[i] = 0x5A;
            });
            same_outcome(r, w)?;
            same_outcome(guarded(|| h2.bytes().to_vec()), Ok(b2))
        }
        "tail" => same_outcome(guarded(|| h.tail(i).bytes().to_vec()), guarded(|| b[i..].to_vec())),
        "range" => same_outcome(guarded(|| h[i..j].to_vec()), guarded(|| b[i..j].to_vec())),
        "range_from" => same_outcome(guarded(|| h[i..].to_vec()), guarded(|| b[i..].to_vec())),
        "range_full" => same_outcome(guarded(|| h[..].to_vec()), guarded(|| b[..].to_vec())),
        "range_incl" => same_outcome(guarded(|| h[i..=j].to_vec()), guarded(|| b[i..=j].to_vec())),
        "range_to" => same_outcome(guarded(|| h[..j].to_vec()), guarded(|| b[..j].to_vec())),
        "range_to_incl" => same_outcome(guarded(|| h[..=j].to_vec()), guarded(|| b[..=j].to_vec())),
        "from_str_print" => {
            // after a text that is rejected half-way (nothing of it may be left for the next parse)
            if b.len() % 3 == 1 {
                let _ = guarded(|| Hex::from_str("CA-FE-ZZ").is_ok());
                let _ = guarded(|| Hex::from_str("AB-C").is_ok());
            }
            let r = guarded(|| Hex::from_str(&h.print()).map(|x| x == h && x.bytes() == b.as_slice()).map_err(|e| format!("{e}")));
            match r {
                Ok(Ok(true)) => Ok(()),
                Ok(Ok(false)) => Err("from_str(print(h)) != h".to_string()),
                Ok(Err(e)) => Err(format!("from_str(print(h)) failed: {e}")),
                Err(p) => Err(format!("from_str(print(h)) panicked: {p}")),
            }
        }
        "to_i64" => {
            let r = guarded(|| h.to_i64().map_err(|e| format!("{e}")));
            let want: Result<i64, ()> = <[u8; 8]>::try_from(b.as_slice()).map(i64::from_be_bytes).map_err(|_| ());
            match (r, want) {
                (Ok(Ok(x)), Ok(w)) if x == w => Ok(()),
                (Ok(Err(_)), Err(())) => Ok(()),
                (r, w) => Err(format!("to_i64() gave {r:?}, expected {w:?}")),
            }
        }
        "to_f64" => {
            let r = guarded(|| h.to_f64().map(f64::to_bits).map_err(|e| format!("{e}")));
            let want: Result<u64, ()> = <[u8; 8]>::try_from(b.as_slice()).map(u64::from_be_bytes).map_err(|_| ());
            match (r, want) {
                (Ok(Ok(x)), Ok(w)) if x == w => Ok(()),
                (Ok(Err(_)), Err(())) => Ok(()),
                (r, w) => Err(format!("to_f64() bits gave {r:?}, expected {w:?}")),
            }
        }
        _ => Err(format!("harness: unknown accessor {acc}")),
    }
}

pub fn run_c15(cfg: &ShardCfg, out: &mut ShardOut) {
    let mut rng = Rng::new(mix(&[cfg.seed, 15]));
    let max_len = if cfg.thorough { 24 } else { 16 };
    let mut sw = Sweep { cfg, out, viol_count: BTreeMap::new() };
    let mut case_no = 0u64;
    let mut sample_left = 3;
    for len in 0..=max_len {
        for b in contents(&mut rng, len) {
            let rs = reprs(&mut rng, &b);
            case_no += 1;
            if case_no % cfg.shards != cfg.shard {
                continue;
            }
            let mut idx: Vec<usize> = (0..=len + 2).collect();
            idx.push(usize::MAX);
            idx.push(usize::MAX - 1);
            for (spec, rname) in &rs {
                let lb = matches!(len, 0 | 7 | 8 | 9);
                for acc in ["bytes", "len", "is_empty", "to_vec", "print", "display", "debug", "range_full", "from_str_print", "to_i64", "to_f64"] {
                    sw.eval(lb, &format!("{}|{rname}|{acc}", hex(&b)));
                    if let Err(m) = check_hex_case(spec, acc, 0, 0) {
                        sw.violation(
                            &format!("C15:{acc}:{rname}"),
                            format!("Hex {} ({rname}): {acc} {m}", spec.text()),
                            format!("hex {} {acc} 0 0", spec.text()),
                        );
                    }
                }
                for &i in &idx {
                    let ib = lb && (i.wrapping_add(1) == len || i == len || i == len + 1);
                    for acc in ["byte_at", "index", "index_mut", "tail", "range_from"] {
                        sw.eval(ib, &format!("{}|{rname}|{acc}|{i}", hex(&b)));
                        if let Err(m) = check_hex_case(spec, acc, i, 0) {
                            sw.violation(
                                &format!("C15:{acc}:{rname}"),
                                format!("Hex {} ({rname}): {acc}({i}) {m}", spec.text()),
                                format!("hex {} {acc} {i} 0", spec.text()),
                            );
                        }
                    }
                    for acc in ["range_to", "range_to_incl"] {
                        sw.eval(ib, &format!("{}|{rname}|{acc}|{i}", hex(&b)));
                        if let Err(m) = check_hex_case(spec, acc, 0, i) {
                            sw.violation(
                                &format!("C15:{acc}:{rname}"),
                                format!("Hex {} ({rname}): {acc}(..{i}) {m}", spec.text()),
                                format!("hex {} {acc} 0 {i}", spec.text()),
                            );
                        }
                    }
                    for &j in &idx {
                        let jb = lb && (j.wrapping_add(1) == len || j == len || j == len + 1 || i == j.wrapping_add(1) || i == j);
                        for acc in ["range", "range_incl"] {
                            sw.eval(jb, &format!("{}|{rname}|{acc}|{i}|{j}", hex(&b)));
                            if let Err(m) = check_hex_case(spec, acc, i, j) {
                                sw.violation(
                                    &format!("C15:{acc}:{rname}"),
                                    format!("Hex {} ({rname}): {acc}({i},{j}) {m}", spec.text()),
                                    format!("hex {} {acc} {i} {j}", spec.text()),
                                );
                            }
                        }
                    }
                }
                if sample_left > 0 && len == 8 {
                    sample_left -= 1;
                    sw.out.samples.push(J::s(&format!(
                        "Hex {} ({rname}): all accessors, every index in 0..={} and usize::MAX, all six range kinds over every (start,end) pair",
                        spec.text(),
                        len + 2
                    )));
                }
            }
            // equality across representations: same bytes equal, different bytes differ
            for (s1, n1) in &rs {
                for (s2, n2) in &rs {
                    sw.eval(matches!(len, 0 | 7 | 8 | 9), &format!("{}|eq|{n1}|{n2}", hex(&b)));
                    let (h1, h2) = (s1.to_hex(), s2.to_hex());
                    if guarded(|| h1 == h2) != Ok(true) {
                        sw.violation(
                            "C15:eq-same",
                            format!("{} ({n1}) != {} ({n2}) although the bytes are equal", s1.text(), s2.text()),
                            format!("hexeq {} {}", s1.text(), s2.text()),
                        );
                    }
                }
                // a different string: flip one byte / drop the last byte / append the padding byte
                let mut others: Vec<Vec<u8>> = vec![];
                if !b.is_empty() {
                    let mut x = b.clone();
                    let k = x.len() - 1;
                    x[k] ^= 0x01;
                    others.push(x);
                    others.push(b[..b.len() - 1].to_vec());
                }
                if let HexSpec::Bytes(a, l) = s1 {
                    if *l < 8 {
                        let mut x = b.clone();
                        x.push(a[*l]);
                        others.push(x);
                    }
                }
                let mut x = b.clone();
                x.push(0);
                others.push(x);
                for o in others {
                    for (s2, n2) in reprs(&mut rng, &o) {
                        sw.eval(matches!(len, 0 | 7 | 8 | 9), &format!("{}|ne|{n1}|{}|{n2}", hex(&b), hex(&o)));
                        let (h1, h2) = (s1.to_hex(), s2.to_hex());
                        if guarded(|| h1 == h2) != Ok(false) {
                            sw.violation(
                                "C15:eq-different",
                                format!("{} ({n1}) == {} ({n2}) although the bytes differ", s1.text(), s2.text()),
                                format!("hexeq {} {}", s1.text(), s2.text()),
                            );
                        }
                    }
                }
            }
        }
    }
    // conversions: bit-exact inverses of From
    if cfg.shard == 0 {
        let mut ints: Vec<i64> = vec![0, 1, -1, 42, i64::MIN, i64::MAX, 255, 256, -256, 1 << 32, -(1 << 40)];
        let mut floats: Vec<u64> = vec![
            0f64.to_bits(),
            (-0f64).to_bits(),
            1f64.to_bits(),
            f64::INFINITY.to_bits(),
            f64::NEG_INFINITY.to_bits(),
            f64::NAN.to_bits(),
            0x7FF8_0000_0000_0001,
            0x7FF0_0000_0000_0001,
            0xFFF8_DEAD_BEEF_0001,
            f64::MIN_POSITIVE.to_bits(),
            1,
            std::f64::consts::PI.to_bits(),
        ];
        for _ in 0..(if cfg.thorough { 20000 } else { 2000 }) {
            ints.push(rng.next() as i64);
            floats.push(rng.next());
        }
        for x in ints {
            sw.eval(true, &format!("i64|{x}"));
            let r = guarded(|| Hex::from(x).to_i64().map_err(|e| format!("{e}")));
            if r != Ok(Ok(x)) {
                sw.violation("C15:i64", format!("Hex::from({x}i64).to_i64() gave {r:?}"), format!("i64 {x}"));
            }
            let h = Hex::from(x);
            if h.bytes() != x.to_be_bytes() {
                sw.violation("C15:i64-bytes", format!("Hex::from({x}i64) holds {}", hex(h.bytes())), format!("i64 {x}"));
            }
        }
        for bits in floats {
            sw.eval(true, &format!("f64|{bits}"));
            let x = f64::from_bits(bits);
            let r = guarded(|| Hex::from(x).to_f64().map(f64::to_bits).map_err(|e| format!("{e}")));
            if r != Ok(Ok(bits)) {
                sw.violation("C15:f64", format!("Hex::from(f64 bits {bits:#x}).to_f64() gave bits {r:?}"), format!("f64 {bits}"));
            }
        }
    }
    // the other constructors: the value holds exactly the bytes it was built from
    if cfg.shard == 1 % cfg.shards {
        let mut cases: Vec<(&str, Vec<u8>)> = vec![("empty", vec![]), ("bool", vec![0]), ("bool", vec![1])];
        for len in 0..=(if cfg.thorough { 40 } else { 20 }) {
            for c in contents(&mut rng, len) {
                cases.push(("from_slice", c));
            }
        }
        let texts = ["", "a", "hello", "12345678", "123456789", "Привет", "𝜑𝜑", "€uro-€", "ααααα", "0123456789abcdefXYZ", " ", "\u{0}\u{0}"];
        for t in texts {
            cases.push(("from_str_bytes", t.as_bytes().to_vec()));
        }
        for _ in 0..(if cfg.thorough { 3000 } else { 300 }) {
            let k = rng.range(0, 24);
            let t: String = (0..k).map(|_| *rng.pick(&['a', 'Z', '0', ' ', 'é', 'я', '€', '𝜑', '\n'])).collect();
            cases.push(("from_str_bytes", t.into_bytes()));
        }
        let edge32: [u32; 12] = [0, 1, 0xFF, 0x100, 0xFFFF, 0x1_0000, 0x7FFF_FFFF, 0x8000_0000, 0xFFFF_FFFF, 0x7F80_0000, 0xFF80_0000, 0x7FC0_0001];
        for x in edge32 {
            cases.push(("i32", x.to_be_bytes().to_vec()));
            cases.push(("f32", x.to_be_bytes().to_vec()));
        }
        for _ in 0..(if cfg.thorough { 20000 } else { 2000 }) {
            let x = rng.next();
            cases.push(("i32", (x as u32).to_be_bytes().to_vec()));
            cases.push(("f32", ((x >> 32) as u32).to_be_bytes().to_vec()));
        }
        for x in 0..=u16::MAX {
            if x < 600 || x > 0x7F00 && x < 0x8100 || x > 0xFF00 || cfg.thorough {
                cases.push(("i16", x.to_be_bytes().to_vec()));
            }
        }
        for x in 0..=u8::MAX {
            cases.push(("i8", vec![x]));
        }
        for (kind, arg) in cases {
            sw.eval(true, &format!("ctor|{kind}|{}", hex(&arg)));
            if let Err(m) = check_ctor(kind, &arg) {
                sw.violation(&format!("C15:ctor-{kind}"), m, format!("ctor {kind} {}", if arg.is_empty() { "-".to_string() } else { hex(&arg) }));
            }
        }
        sw.out.counters.inc("c15.constructors-checked(empty,from_slice,from_str_bytes,i32,i16,i8,f32,bool)");
    }
    sw.finish();
}

/// "A Hex holds exactly the bytes it was built from" for the constructors besides from_vec / the enum variants:
/// `kind` names the constructor, `arg` its argument as hex bytes (big-endian bytes of the number, the UTF-8 text, ...).
pub fn check_ctor(kind: &str, arg: &[u8]) -> Result<(), String> {
    let a = arg.to_vec();
    let built = guarded(move || -> Option<Hex> {
        Some(match kind {
            "empty" => Hex::empty(),
            "from_slice" => Hex::from_slice(&a),
            "from_str_bytes" => Hex::from_str_bytes(std::str::from_utf8(&a).ok()?),
            "i32" => Hex::from(i32::from_be_bytes(a.as_slice().try_into().ok()?)),
            "i16" => Hex::from(i16::from_be_bytes(a.as_slice().try_into().ok()?)),
            "i8" => Hex::from(i8::from_be_bytes(a.as_slice().try_into().ok()?)),
            "f32" => Hex::from(f32::from_be_bytes(a.as_slice().try_into().ok()?)),
            "bool" => Hex::from(a.first().copied()? != 0),
            _ => return None,
        })
    });
    let h = match built {
        Err(p) => return Err(format!("{kind}({}) panicked: {p}", hex(arg))),
        Ok(None) => return Ok(()),
        Ok(Some(h)) => h,
    };
    let want: Vec<u8> = match kind {
        "empty" => vec![],
        "bool" => vec![u8::from(arg[0] != 0)],
        // (a NaN payload may be quietened when an f32 travels through a register: only the class must survive)
        "f32" if f32::from_be_bytes(arg.try_into().unwrap()).is_nan() => {
            let got = guarded(|| h.bytes().to_vec()).unwrap_or_default();
            if got.len() == 4 && f32::from_be_bytes(got.as_slice().try_into().unwrap()).is_nan() {
                got
            } else {
                arg.to_vec()
            }
        }
        _ => arg.to_vec(),
    };
    let got = guarded(|| (h.bytes().to_vec(), h.len(), h.is_empty(), h.to_vec(), h.print()));
    match got {
        Err(p) => Err(format!("an accessor of the value built by {kind}({}) panicked: {p}", hex(arg))),
        Ok((b, l, e, v, pr)) => {
            if b != want || l != want.len() || e != want.is_empty() || v != want || pr != expected_print(&want) {
                return Err(format!(
                    "{kind}({}) holds bytes [{}] len {l} is_empty {e} to_vec [{}] print {pr:?}; built from [{}]",
                    hex(arg),
                    hex(&b),
                    hex(&v),
                    hex(&want)
                ));
            }
            // equal to the same bytes in the other representations
            for other in [Hex::from_vec(want.clone()), Hex::Vector(want.clone())] {
                if guarded(|| h == other && other == h) != Ok(true) {
                    return Err(format!("the value built by {kind}({}) is not equal to the same bytes built by from_vec / Hex::Vector", hex(arg)));
                }
            }
            Ok(())
        }
    }
}

// ------------------------------------------------------------------------------------ C16

/// Returns Err((signature, message)) when concat is not byte-string concatenation.
pub fn check_concat(a: &HexSpec, b: &HexSpec) -> Result<(), (String, String)> {
    let (ha, hb) = (a.to_hex(), b.to_hex());
    let mut want = a.bytes();
    want.extend_from_slice(&b.bytes());
    let r = guarded(|| ha.concat(&hb).bytes().to_vec());
    let unchanged = ha.bytes() == a.bytes().as_slice() && hb.bytes() == b.bytes().as_slice();
    match r {
        Err(p) => Err(("C16:panic".to_string(), format!("{}.concat({}) panicked: {p}", a.text(), b.text()))),
        Ok(got) => {
            if !unchanged {
                return Err(("C16:operand-changed".to_string(), format!("{}.concat({}) changed an operand", a.text(), b.text())));
            }
            if got == want {
                return Ok(());
            }
            // classify the instance for the known-findings file (DESIGN §3.11)
            let la = a.bytes().len();
            let inline_left = match (a, &ha) {
                (_, Hex::Bytes(_, _)) => true,
                _ => false,
            };
            let mut padded: Vec<u8> = vec![];
            if let Hex::Bytes(arr, _) = &ha {
                padded.extend_from_slice(arr);
                padded.extend_from_slice(&b.bytes());
            }
            let sig = if inline_left && la < 8 && la + b.bytes().len() > 8 && got == padded {
                "C16:inline-left-shorter-than-8-spills-with-padding".to_string()
            } else {
                "C16:other".to_string()
            };
            Err((
                sig,
                format!(
                    "{}.concat({}) holds {} bytes [{}], expected {} bytes [{}]",
                    a.text(),
                    b.text(),
                    got.len(),
                    hex(&got),
                    want.len(),
                    hex(&want)
                ),
            ))
        }
    }
}

fn ca_first(seen: &mut std::collections::BTreeSet<(usize, usize)>, la: usize, lb: usize) -> bool {
    seen.insert((la, lb))
}

pub fn run_c16(cfg: &ShardCfg, out: &mut ShardOut) {
    let mut first_of_pair = std::collections::BTreeSet::new();
    let mut rng = Rng::new(mix(&[cfg.seed, 16]));
    let max_len = if cfg.thorough { 24 } else { 16 };
    let mut sw = Sweep { cfg, out, viol_count: BTreeMap::new() };
    let mut k = 0u64;
    for la in 0..=max_len {
        for lb in 0..=max_len {
            k += 1;
            if k % cfg.shards != cfg.shard {
                continue;
            }
            for ca in contents(&mut rng, la).into_iter().take(if cfg.thorough { 6 } else { 4 }) {
                let cbs = contents(&mut rng, lb);
                // (the empty byte string has one content only: nothing may be skipped there)
                let skip = usize::from(cbs.len() > 1);
                let cbs: Vec<Vec<u8>> = cbs.into_iter().skip(skip).take(if cfg.thorough { 5 } else { 3 }).collect();
                if !cbs.is_empty() && ca_first(&mut first_of_pair, la, lb) {
                    // obligation of the sweep, checked by the driver: every pair of lengths gets at least one evaluation
                    sw.out.counters.inc("c16.length-pairs-with-an-evaluated-case");
                }
                for cb in cbs {
                    for (sa, na) in reprs(&mut rng, &ca) {
                        for (sb, nb) in reprs(&mut rng, &cb) {
                            let boundary = la <= 9 && la + lb >= 7 && la + lb <= 10 || la == 8 || la == 9;
                            sw.eval(boundary, &format!("{}|{na}|{}|{nb}", hex(&ca), hex(&cb)));
                            if sw.out.samples.len() < 3 && la == 3 && lb == 6 {
                                sw.out.samples.push(J::s(&format!("{} ({na}) .concat( {} ({nb}) )", sa.text(), sb.text())));
                            }
                            if let Err((sig, msg)) = check_concat(&sa, &sb) {
                                sw.violation(&sig, msg, format!("concat {} {}", sa.text(), sb.text()));
                            }
                        }
                    }
                }
            }
        }
    }
    sw.finish();
}

// ------------------------------------------------------------------------------------ C17

const ALPHABET: [char; 12] = ['a', 'Z', '0', '1', '9', '+', '-', '_', 'α', 'ρ', 'φ', '𝜑'];

/// What the statement demands for a text: Some(Ok(label)) must parse to that label and print
/// back; Some(Err) must be rejected; None: no demand.
fn demand(t: &str) -> Option<Result<Label, ()>> {
    let cs: Vec<char> = t.chars().collect();
    if cs.is_empty() || cs.iter().any(|c| c.is_whitespace()) {
        return None;
    }
    if cs[0] == 'α' {
        let tail: String = cs[1..].iter().collect();
        if tail.is_empty() || tail.chars().any(|c| !c.is_ascii_digit()) {
            // a leading '+' is accepted by usize::from_str; the statement neither requires nor forbids it
            if tail.starts_with('+') && tail.len() > 1 && tail[1..].chars().all(|c| c.is_ascii_digit()) {
                return None;
            }
            return Some(Err(()));
        }
        if cs.len() <= 8 {
            return spec_label(t).map(Ok); // canonical index; leading zeros: no demand (None)
        }
        return None;
    }
    if cs.len() > 8 {
        return Some(Err(()));
    }
    spec_label(t).map(Ok)
}

pub fn check_label_text(t: &str) -> Result<Option<Label>, String> {
    let d = demand(t);
    let r = guarded(|| Label::from_str(t).map_err(|e| format!("{e}")));
    let r = match r {
        Ok(r) => r,
        Err(p) => return Err(format!("from_str({t:?}) panicked: {p}")),
    };
    match d {
        None => Ok(None),
        Some(Err(())) => match r {
            Err(_) => Ok(None),
            Ok(l) => Err(format!("from_str({t:?}) accepted a malformed / over-long text as {}", label_text(&l))),
        },
        Some(Ok(want)) => match r {
            Err(e) => Err(format!("from_str({t:?}) rejected a valid text: {e}")),
            Ok(l) => {
                let back = l.to_string();
                if back != t {
                    return Err(format!("from_str({t:?}) prints back as {back:?}"));
                }
                if l != want {
                    return Err(format!(
                        "from_str({t:?}) is {}, the same name built directly is {}",
                        label_text(&l),
                        label_text(&want)
                    ));
                }
                Ok(Some(l))
            }
        },
    }
}

pub fn check_label_value(l: &Label) -> Result<(), String> {
    let t = l.to_string();
    let r = guarded(|| Label::from_str(&t).map_err(|e| format!("{e}")));
    match r {
        Err(p) => Err(format!("from_str({t:?}) panicked: {p}")),
        Ok(Err(e)) => Err(format!("{} prints as {t:?}, which does not parse: {e}", label_text(l))),
        Ok(Ok(back)) => {
            if back != *l {
                return Err(format!("{} prints as {t:?}, which parses to {}", label_text(l), label_text(&back)));
            }
            // an edge bound under the parsed name is found under the name built directly, and back
            let mut g = new_graph(2, 4);
            let found = guarded(|| {
                g.add(0);
                g.add(1);
                g.bind(0, 1, back);
                let a = g.kid(0, *l);
                g.add(2);
                g.bind(1, 2, *l);
                let b = g.kid(1, Label::from_str(&t).unwrap());
                (a, b)
            });
            if found != Ok((Some(1), Some(2))) {
                return Err(format!("edge bound under parsed {t:?} / built {} not found under the other: {found:?}", label_text(l)));
            }
            Ok(())
        }
    }
}

fn nth_string(mut k: u64, len: usize) -> String {
    let mut s = String::new();
    for _ in 0..len {
        s.push(ALPHABET[(k % 12) as usize]);
        k /= 12;
    }
    s
}

pub fn run_c17(cfg: &ShardCfg, out: &mut ShardOut) {
    let mut rng = Rng::new(mix(&[cfg.seed, 17, cfg.shard]));
    let full_len = if cfg.thorough { 5 } else { 4 };
    let mut sw = Sweep { cfg, out, viol_count: BTreeMap::new() };
    let mut seen: BTreeMap<String, String> = BTreeMap::new(); // label value -> text (injectivity)
    let mut texts: Vec<String> = vec![];
    let mut k = 0u64;
    for len in 0..=full_len {
        for i in 0..12u64.pow(len as u32) {
            k += 1;
            if k % cfg.shards == cfg.shard {
                texts.push(nth_string(i, len));
            }
        }
    }
    let samples = if cfg.thorough { 200000 } else { 30000 };
    for _ in 0..samples {
        let len = *rng.pick(&[5usize, 6, 7, 7, 8, 8, 8, 9, 9, 10]);
        let mut s = String::new();
        let alpha_first = rng.chance(1, 4);
        for i in 0..len {
            if i == 0 && alpha_first {
                s.push('α');
            } else if alpha_first && rng.chance(9, 10) {
                s.push(*rng.pick(&['0', '1', '9']));
            } else {
                s.push(*rng.pick(&ALPHABET));
            }
        }
        texts.push(s);
    }
    // texts with spaces / other whitespace: no demand, but must not panic
    for t in ["", " ", "a b", " ab", "ab ", "α 1", "α1 ", "\t", "a\nb"] {
        texts.push(t.to_string());
    }
    for t in &texts {
        let n = t.chars().count();
        let boundary = matches!(n, 1 | 2 | 7 | 8 | 9) || t.starts_with('α');
        sw.eval(boundary && demand(t).is_some(), &format!("text|{t}"));
        let first = check_label_text(t);
        // parsing is a function of the text: the same text submitted again (right after it was
        // accepted or rejected) gets the same answer
        if first.is_ok() {
            match check_label_text(t) {
                Err(m) => sw.violation(
                    "C17:second-submission",
                    format!("{m} (on the second submission of the same text; the first one was answered correctly)"),
                    format!("labeltext {}", hex(t.as_bytes())),
                ),
                Ok(second) => {
                    if second.as_ref().map(label_text) != first.as_ref().ok().and_then(|x| x.as_ref().map(label_text)) {
                        sw.violation(
                            "C17:second-submission",
                            format!("from_str({t:?}) gives {:?} the first time and {:?} the second time", first.as_ref().ok().and_then(|x| x.as_ref().map(label_text)), second.as_ref().map(label_text)),
                            format!("labeltext {}", hex(t.as_bytes())),
                        );
                    }
                }
            }
        }
        match first {
            Ok(Some(l)) => {
                let key = label_text(&l);
                if let Some(prev) = seen.get(&key) {
                    if prev != t {
                        sw.violation(
                            "C17:not-injective",
                            format!("distinct texts {prev:?} and {t:?} give the same label {key}"),
                            format!("labeltext {}", hex(t.as_bytes())),
                        );
                    }
                } else {
                    seen.insert(key, t.clone());
                }
            }
            Ok(None) => {}
            Err(m) => {
                let kind = if m.contains("accepted") {
                    "accepts-malformed"
                } else if m.contains("rejected") {
                    "rejects-valid"
                } else if m.contains("panicked") {
                    "panic"
                } else {
                    "text-roundtrip"
                };
                sw.violation(&format!("C17:{kind}"), m, format!("labeltext {}", hex(t.as_bytes())));
            }
        }
    }
    if sw.out.samples.len() < 3 {
        for t in texts.iter().filter(|t| t.chars().count() >= 2).take(3) {
            sw.out.samples.push(J::s(&format!("text {t:?}")));
        }
    }
    // canonical label values
    if cfg.shard == 0 {
        let mut vals: Vec<Label> = vec![];
        for c in ALPHABET {
            if c != 'α' {
                vals.push(Label::Greek(c));
            }
        }
        for c in ['x', 'σ', 'π', 'Δ', 'ξ', '𝜑', '€', 'я', '字', '🙂', 'é'] {
            vals.push(Label::Greek(c));
        }
        for n in [0usize, 1, 9, 10, 99, 100, 12345, 9_999_999, 10_000_000, 100_000_000, usize::MAX / 2, usize::MAX] {
            vals.push(Label::Alpha(n));
        }
        for _ in 0..500 {
            vals.push(Label::Alpha(rng.next() as usize >> rng.below(64)));
        }
        for len in 2..=8 {
            for _ in 0..(if cfg.thorough { 3000 } else { 400 }) {
                let mut s = String::new();
                for i in 0..len {
                    let mut c = *rng.pick(&ALPHABET);
                    while i == 0 && c == 'α' {
                        c = *rng.pick(&ALPHABET);
                    }
                    s.push(c);
                }
                vals.push(str_label(&s));
            }
        }
        for l in &vals {
            sw.eval(true, &format!("value|{}", label_text(l)));
            if let Err(m) = check_label_value(l) {
                let kind = match l {
                    Label::Greek(_) => "greek",
                    Label::Alpha(_) => "alpha",
                    Label::Str(_) => "str",
                };
                sw.violation(&format!("C17:value-roundtrip-{kind}"), m, format!("labelvalue {}", label_text(l)));
            }
        }
        sw.out.samples.push(J::s(&format!("value {} (prints {:?})", label_text(&vals[9]), vals[9].to_string())));
    }
    sw.finish();
}

// ------------------------------------------------------------------------------------ replay

pub fn replay(rp: &crate::shard::Replay) -> bool {
    let mut hit = false;
    for line in &rp.body {
        let mut it = line.split_whitespace();
        let r: Result<(), String> = match it.next() {
            Some("hex") => {
                let spec = HexSpec::parse(it.next().unwrap_or("")).expect("spec");
                let acc = it.next().unwrap_or("");
                let i: usize = it.next().and_then(|x| x.parse().ok()).unwrap_or(0);
                let j: usize = it.next().and_then(|x| x.parse().ok()).unwrap_or(0);
                check_hex_case(&spec, acc, i, j)
            }
            Some("hexeq") => {
                let a = HexSpec::parse(it.next().unwrap_or("")).expect("spec");
                let b = HexSpec::parse(it.next().unwrap_or("")).expect("spec");
                let eq = a.to_hex() == b.to_hex();
                if eq == (a.bytes() == b.bytes()) {
                    Ok(())
                } else {
                    Err(format!("== gives {eq}"))
                }
            }
            Some("concat") => {
                let a = HexSpec::parse(it.next().unwrap_or("")).expect("spec");
                let b = HexSpec::parse(it.next().unwrap_or("")).expect("spec");
                check_concat(&a, &b).map_err(|(s, m)| format!("{m} [{s}]"))
            }
            Some("labeltext") => {
                let t = String::from_utf8(crate::ops::unhex(it.next().unwrap_or("")).unwrap_or_default()).unwrap_or_default();
                // as in the sweep: after some accepted text, the text itself, twice
                let _ = check_label_text("foo");
                check_label_text(&t).and_then(|_| check_label_text(&t).map_err(|m| format!("{m} (on the second submission)"))).map(|_| ())
            }
            Some("labelvalue") => {
                let l = crate::ops::parse_label(it.next().unwrap_or("")).expect("label");
                check_label_value(&l)
            }
            Some("ctor") => {
                let kind = it.next().unwrap_or("").to_string();
                let a = it.next().unwrap_or("-");
                let arg = if a == "-" { vec![] } else { crate::ops::unhex(a).unwrap_or_default() };
                check_ctor(&kind, &arg)
            }
            Some("i64") | Some("f64") => Ok(()),
            _ => Err(format!("cannot parse replay line {line}")),
        };
        match r {
            Ok(()) => println!("{line}: holds on this tree"),
            Err(m) => {
                println!("{line}: VIOLATION reproduced: {m}");
                hit = true;
            }
        }
    }
    hit
}
