//! C14: a script does exactly what the same API calls would do (twin script/API), and a
//! malformed command yields Err after the commands before it have been applied.

use crate::gen::{pick_config, Gen, Profile};
use crate::json::{Counters, J};
use crate::ops::{Cmd, Ident, Op};
use crate::rec::{digest, exec_raw, first_diff, guarded, Ret, Session, O_EDGES, O_INSPECT, O_KEYS, O_TEXT};
use crate::rng::{mix, Rng};
use crate::scriptgen::ScriptGen;
use crate::shard::{write_replay, ShardCfg, ShardOut, ViolRec};
use crate::shim::{new_graph, Graph};
use sodg::{Hex, Script};
use std::collections::BTreeMap;

const FULL: u8 = O_KEYS | O_EDGES | O_TEXT | O_INSPECT;
const LIGHT: u8 = O_KEYS | O_EDGES;

pub struct ScriptCase {
    pub n: usize,
    pub cap: usize,
    pub base: Vec<Op>,
    pub text: String,
    pub cmds: Vec<Cmd>,
    pub fault_at: Option<usize>,
    pub fault_kind: usize,
    pub seed: u64,
}

/// The direct calls a command list stands for, executed on `g`.
fn direct(g: &mut Box<dyn Graph>, cmds: &[Cmd]) -> Result<(), String> {
    let mut vars: BTreeMap<String, usize> = BTreeMap::new();
    guarded(|| {
        let mut res = |g: &mut Box<dyn Graph>, i: &Ident| -> usize {
            match i {
                Ident::Lit(v) => *v,
                Ident::Var(n) => {
                    if let Some(v) = vars.get(n) {
                        *v
                    } else {
                        let id = g.next_id();
                        vars.insert(n.clone(), id);
                        id
                    }
                }
            }
        };
        for c in cmds {
            match c {
                Cmd::Add(i) => {
                    let v = res(g, i);
                    g.add(v);
                }
                Cmd::Bind(a, b, l) => {
                    let v1 = res(g, a);
                    let v2 = res(g, b);
                    // the label the text stands for by the documented grammar (not the library's parser:
                    // a defect of Label::from_str must show as a difference, not as a panic on this side)
                    let lab = crate::ops::spec_label(l).expect("harness: generated label text must be canonical");
                    g.bind(v1, v2, lab);
                }
                Cmd::Put(i, d) => {
                    let v = res(g, i);
                    g.put(v, &Hex::from_vec(d.clone()));
                }
            }
        }
    })
}

pub fn run_case(case: &ScriptCase, c: &mut Counters, work: &std::path::Path) -> (Option<String>, bool) {
    let mut s = Session::new(case.n, case.cap, work);
    let mut b: Box<dyn Graph> = new_graph(case.n, case.cap);
    let mut uniq = 0u64;
    let labels = crate::hist::labels_of(&case.base);
    for op in &case.base {
        if !s.m.legal(op) {
            continue;
        }
        let o = s.step(op);
        let r = exec_raw(&mut b, op, work, &mut uniq, &labels);
        if o.panic.is_some() || r.is_err() || s.g.keys() != s.m.keys() {
            c.inc("c14.base-history-diverged");
            return (None, false);
        }
    }
    // is the program legal in this state (replay of shrunk cases)?
    {
        let mut sim = s.m.clone();
        let upto = case.fault_at.unwrap_or(case.cmds.len());
        if sim.apply_script(&case.cmds[..upto.min(case.cmds.len())]).is_none() {
            c.inc("c14.program-outside-quantifier");
            return (None, false);
        }
    }
    // the two sides must start from the same observable state (they received the same calls)
    if digest(s.g.as_ref(), LIGHT, &labels) != digest(b.as_ref(), LIGHT, &labels) {
        c.inc("c14.base-history-diverged");
        return (None, false);
    }
    let op = Op::Script { text: case.text.clone(), cmds: case.cmds.clone(), fault_at: case.fault_at };
    let o = s.step(&op);
    c.inc("c14.scripts-deployed");
    let upto = case.fault_at.unwrap_or(case.cmds.len());
    let direct_res = direct(&mut b, &case.cmds[..upto]);
    match (&o.panic, &direct_res) {
        (Some(_), Err(_)) => {
            // the same calls panic when made directly: not the script's doing
            c.inc("c14.both-sides-panicked(skipped)");
            return (None, false);
        }
        (Some(p), Ok(())) => {
            return (
                Some(format!(
                    "deploy_to() panicked ({p}) on a {} script; the same calls made directly do not panic",
                    if case.fault_at.is_some() { "malformed" } else { "well-formed" }
                )),
                false,
            );
        }
        (None, Err(p)) => {
            return (Some(format!("the direct calls panic ({p}) where the script does not")), false);
        }
        (None, Ok(())) => {}
    }
    match (&o.ret, case.fault_at) {
        (Ret::Res(Ok(cnt)), None) => {
            if *cnt != case.cmds.len().to_string() {
                return (Some(format!("deploy_to() returned {cnt}, the script has {} commands", case.cmds.len())), false);
            }
        }
        (Ret::Res(Err(e)), None) => return (Some(format!("a well-formed script was rejected: {e}")), false),
        (Ret::Res(Ok(cnt)), Some(k)) => {
            return (
                Some(format!(
                    "a script whose command no.{k} is malformed ({}) was accepted (returned {cnt})",
                    ScriptGen::fault_name(case.fault_kind)
                )),
                false,
            )
        }
        (Ret::Res(Err(_)), Some(_)) => c.inc(&format!("c14.fault-rejected.{}", ScriptGen::fault_name(case.fault_kind))),
        _ => {}
    }
    let (da, db) = (digest(s.g.as_ref(), FULL, &labels), digest(b.as_ref(), FULL, &labels));
    if da != db {
        return (
            Some(format!(
                "graph after the script differs from the graph after the {} direct calls: {}",
                if case.fault_at.is_some() { "preceding" } else { "same" },
                first_diff(&db, &da)
            )),
            false,
        );
    }
    let mut sa = s.g.snapshot();
    let mut sb = b.snapshot();
    if case.fault_at.is_some() {
        sa.next_v = 0;
        sb.next_v = 0;
    }
    if sa == sb {
        c.inc("c14.snapshot-equal");
    } else {
        c.inc("c14.snapshot-differs(latent)");
    }
    // differential continuation + drain on both
    if s.g.keys() != s.m.keys() {
        let snap = s.g.snapshot();
        s.m.resync(&snap);
    }
    if case.fault_at.is_none() {
        let mut gen = Gen::new(case.seed, Profile::Classic, case.n, case.cap);
        if !labels.is_empty() {
            gen.labels = labels.clone();
        }
        let mut steps: Vec<Op> = vec![];
        for _ in 0..20 {
            steps.push(gen.next_op(&s.m));
            let op = steps.last().unwrap().clone();
            let o = s.step(&op);
            let r = exec_raw(&mut b, &op, work, &mut uniq, &labels);
            c.inc("c14.continuation-calls");
            if o.panic.is_some() {
                return (None, false);
            }
            match r {
                Err(p) => return (Some(format!("continuation: {} panicked on the direct-call graph only: {p}", op.show())), false),
                Ok(r) => {
                    if r != o.ret {
                        return (Some(format!("continuation: {} returned {:?} after the script, {:?} after the direct calls", op.show(), o.ret, r)), false);
                    }
                }
            }
            let (da, db) = (digest(s.g.as_ref(), LIGHT, &labels), digest(b.as_ref(), LIGHT, &labels));
            if da != db {
                return (Some(format!("continuation: after {} the two graphs differ: {}", op.show(), first_diff(&db, &da))), false);
            }
            if s.g.keys() != s.m.keys() {
                let snap = s.g.snapshot();
                s.m.resync(&snap);
            }
        }
        let mut order: Vec<usize> = s.m.verts.iter().filter(|(_, x)| x.data.is_some()).map(|(v, _)| *v).collect();
        Rng::new(case.seed ^ 77).shuffle(&mut order);
        for v in order {
            if !s.g.keys().contains(&v) {
                continue;
            }
            let op = Op::Data(v);
            let o = s.step(&op);
            let r = exec_raw(&mut b, &op, work, &mut uniq, &labels);
            if o.panic.is_some() {
                return (None, false);
            }
            if r != Ok(o.ret.clone()) {
                return (Some(format!("drain: data({v}) gives {:?} after the script, {r:?} after the direct calls", o.ret)), false);
            }
            if s.g.keys() != b.keys() {
                return (Some(format!("drain: after data({v}) vertices {:?} vs {:?}", s.g.keys(), b.keys())), false);
            }
            if s.g.keys() != s.m.keys() {
                let snap = s.g.snapshot();
                s.m.resync(&snap);
            }
        }
    }
    // non-trivial: a variable used in >= 2 commands, a comment, a datum > 8 bytes
    let mut uses: BTreeMap<&String, usize> = BTreeMap::new();
    for cmd in &case.cmds {
        let idents: Vec<&Ident> = match cmd {
            Cmd::Add(i) | Cmd::Put(i, _) => vec![i],
            Cmd::Bind(a, b, _) => vec![a, b],
        };
        let mut names: Vec<&String> = idents.iter().filter_map(|i| if let Ident::Var(n) = i { Some(n) } else { None }).collect();
        names.dedup();
        for n in names {
            *uses.entry(n).or_insert(0) += 1;
        }
    }
    let var2 = uses.values().any(|n| *n >= 2);
    let comment = case.text.contains('#');
    let big = case.cmds.iter().any(|c| matches!(c, Cmd::Put(_, d) if d.len() > 8));
    (None, var2 && comment && big)
}

pub fn gen_case(seed: u64) -> Option<ScriptCase> {
    let mut rng = Rng::new(seed);
    let (n, cap) = pick_config(&mut rng);
    let cap = cap.max(4);
    // base history (primitive ops) so that the script meets groups, data, recycled ids
    let mut gen = Gen::new(rng.next(), *rng.pick(&[Profile::Classic, Profile::PutFirst, Profile::ReAdd, Profile::Cross]), n, cap);
    let mut m = crate::model::Model::new(n, cap);
    let mut base = vec![];
    let blen = if rng.chance(1, 4) { 0 } else { rng.range(3, 40) };
    for _ in 0..blen {
        let op = gen.next_op(&m);
        apply_model(&mut m, &op);
        base.push(op);
    }
    let mut sg = ScriptGen::new(rng.next(), &gen.labels);
    let max = *rng.pick(&[3usize, 8, 15, 40]);
    let cmds = sg.ast(&m, 1, max)?;
    let (fault_at, fault_kind) = if rng.chance(1, 3) {
        // a command that introduces no new variable
        let mut known: Vec<String> = vec![];
        let mut ok_pos = vec![];
        for (i, c) in cmds.iter().enumerate() {
            let idents: Vec<&Ident> = match c {
                Cmd::Add(i) | Cmd::Put(i, _) => vec![i],
                Cmd::Bind(a, b, _) => vec![a, b],
            };
            let new_var = idents.iter().any(|x| matches!(x, Ident::Var(n) if !known.contains(n)));
            if !new_var {
                ok_pos.push(i);
            }
            for x in idents {
                if let Ident::Var(n) = x {
                    if !known.contains(n) {
                        known.push(n.clone());
                    }
                }
            }
        }
        if ok_pos.is_empty() {
            (None, 0)
        } else {
            (Some(*rng.pick(&ok_pos)), rng.below(ScriptGen::FAULT_KINDS))
        }
    } else {
        (None, 0)
    };
    let text = sg.render(&cmds, fault_at.map(|k| (k, fault_kind)));
    Some(ScriptCase { n, cap, base, text, cmds, fault_at, fault_kind, seed: rng.next() })
}

/// Model-only application of primitive ops (for building base histories without a graph).
pub fn apply_model(m: &mut crate::model::Model, op: &Op) {
    match op {
        Op::Add(v) => {
            m.add(*v);
        }
        Op::Bind(a, b, l) => {
            m.bind(*a, *b, *l);
        }
        Op::Put(v, d) => m.put(*v, &d.bytes()),
        Op::Data(v) => {
            m.data(*v);
        }
        Op::NextId => {
            m.next_id();
        }
        _ => {}
    }
}

pub fn run_c14(cfg: &ShardCfg, out: &mut ShardOut) {
    for j in 0..cfg.count {
        if out.out_of_time(cfg) {
            out.counters.inc("stopped-by-budget");
            break;
        }
        let Some(case) = gen_case(mix(&[cfg.seed, cfg.shard, j as u64, 14])) else {
            out.counters.inc("c14.no-program-generated");
            continue;
        };
        let mut stray = crate::json::Counters::default();
        let Some((v, nt)) = crate::shard::case_guard(&mut stray, || run_case(&case, &mut out.counters, &cfg.work)) else {
            out.counters.inc("case.abandoned-by-stray-panic-from-code-under-test");
            continue;
        };
        out.evaluations += 1;
        out.configs.insert((case.n, case.cap));
        out.counters.add("c14.commands", case.cmds.len() as u64);
        if case.fault_at.is_some() {
            out.counters.inc("c14.malformed-scripts");
        }
        if nt {
            let mut f = crate::rng::Fnv::new();
            f.write_str(&case.text);
            f.write_u64(crate::hist::ops_hash(case.n, case.cap, &case.base));
            out.nontrivial.insert(f.0);
            if out.samples.len() < 3 {
                out.samples.push(
                    J::obj()
                        .with("N", J::i(case.n))
                        .with("cap", J::i(case.cap))
                        .with("base_calls", J::i(case.base.len()))
                        .with("fault", case.fault_at.map_or(J::Null, |k| J::s(&format!("{} at command {k}", ScriptGen::fault_name(case.fault_kind)))))
                        .with("script", J::s(&case.text)),
                );
            }
        }
        if let Some(msg) = v {
            let mut body = crate::ops::history_text(&case.base);
            if !body.is_empty() {
                body.push('\n');
            }
            body.push_str(&Op::Script { text: case.text.clone(), cmds: case.cmds.clone(), fault_at: case.fault_at }.text());
            let p = write_replay(
                cfg,
                &j.to_string(),
                &[
                    ("n", case.n.to_string()),
                    ("cap", case.cap.to_string()),
                    ("seed", case.seed.to_string()),
                    ("fault_kind", case.fault_kind.to_string()),
                    ("message", msg.clone()),
                    ("script", case.text.clone()),
                ],
                &body,
            );
            out.violations.push(ViolRec {
                message: format!("{msg} [N={} cap={} script {:?}]", case.n, case.cap, case.text.chars().take(200).collect::<String>()),
                replay: p,
                signature: "C14".to_string(),
            });
            return;
        }
    }
}

pub fn replay(rp: &crate::shard::Replay, work: &std::path::Path) -> bool {
    let get = |k: &str| rp.header.get(k).cloned().unwrap_or_default();
    let mut ops: Vec<Op> = rp.body.iter().filter_map(|l| Op::parse(l)).collect();
    let Some(Op::Script { text, cmds, fault_at }) = ops.pop() else {
        println!("no script op at the end of the replay");
        return false;
    };
    let case = ScriptCase {
        n: get("n").parse().unwrap_or(4),
        cap: get("cap").parse().unwrap_or(16),
        base: ops,
        text,
        cmds,
        fault_at,
        fault_kind: get("fault_kind").parse().unwrap_or(0),
        seed: get("seed").parse().unwrap_or(1),
    };
    println!("script:\n{}", case.text);
    let mut c = Counters::default();
    match run_case(&case, &mut c, work).0 {
        Some(m) => {
            println!("VIOLATION reproduced: {m}");
            true
        }
        None => {
            println!("no violation on this tree");
            false
        }
    }
}

#[allow(dead_code)]
fn _keep(_: Script) {}
