//! Recorder: executes operations on the real graph at the API boundary, under catch_unwind,
//! keeps the reference model alongside and returns what was observed.

use crate::model::{BindArm, Model, Prim};
use crate::ops::{label_text, Op};
use crate::rng::Fnv;
use crate::shim::{load_graph, new_graph, Graph};
use sodg::{Label, Script};
use std::cell::RefCell;
use std::io::Write;
use std::panic::{catch_unwind, AssertUnwindSafe};
use std::path::PathBuf;

thread_local! {
    static LAST_PANIC: RefCell<Option<String>> = const { RefCell::new(None) };
    static GUARD_DEPTH: std::cell::Cell<u32> = const { std::cell::Cell::new(0) };
}

/// Silence the default panic printer and remember the message instead.
pub fn install_panic_hook() {
    std::panic::set_hook(Box::new(|info| {
        let msg = if let Some(s) = info.payload().downcast_ref::<&str>() {
            (*s).to_string()
        } else if let Some(s) = info.payload().downcast_ref::<String>() {
            s.clone()
        } else {
            "<non-string panic>".to_string()
        };
        let loc = info.location().map(|l| format!(" @ {}:{}", l.file(), l.line())).unwrap_or_default();
        if GUARD_DEPTH.with(std::cell::Cell::get) == 0 {
            // a panic of the harness itself: never swallow it
            eprintln!("HARNESS PANIC: {msg}{loc}");
        }
        LAST_PANIC.with(|p| *p.borrow_mut() = Some(format!("{msg}{loc}")));
    }));
}

/// Removes the session's image file when the session ends.
pub struct ImgGuard(PathBuf);
impl Drop for ImgGuard {
    fn drop(&mut self) {
        let _ = std::fs::remove_file(&self.0);
    }
}

/// Run `f`, returning Err(panic message) if it panicked.
pub fn guarded<T>(f: impl FnOnce() -> T) -> Result<T, String> {
    LAST_PANIC.with(|p| *p.borrow_mut() = None);
    GUARD_DEPTH.with(|d| d.set(d.get() + 1));
    let r = catch_unwind(AssertUnwindSafe(f));
    GUARD_DEPTH.with(|d| d.set(d.get() - 1));
    match r {
        Ok(v) => Ok(v),
        Err(_) => Err(LAST_PANIC.with(|p| p.borrow_mut().take()).unwrap_or_else(|| "<panic>".to_string())),
    }
}

#[derive(Clone, Debug, PartialEq)]
pub enum Ret {
    Unit,
    Id(usize),
    Data(Option<Vec<u8>>),
    Kid(Option<usize>),
    Kids(Vec<(Label, usize)>),
    /// Result of merge / script / slice / saveload: Ok(text or count) or Err(text).
    Res(Result<String, String>),
    Texts(Texts),
}

#[derive(Clone, Debug, PartialEq)]
pub struct Texts {
    pub xml: Result<String, String>,
    pub dot: String,
    pub debug: String,
    pub display: String,
    pub inspect: Vec<(usize, Result<String, String>)>,
    pub v_print: Vec<(usize, Result<String, String>)>,
}

pub struct Outcome {
    pub ret: Ret,
    pub panic: Option<String>,
    pub keys_before: Vec<usize>,
    pub keys_after: Vec<usize>,
    /// What the model says the call returns / removes (None when the model was not applied).
    pub model_ret: Option<Ret>,
    pub model_removed: Vec<usize>,
    /// Primitive events a compound op stands for (merge, script), for the trace monitors.
    pub prims: Vec<Prim>,
    /// Structural mismatch detected while adopting a compound op into the model.
    pub adopt_error: Option<String>,
    pub bind_arm: Option<BindArm>,
    /// The graph not continued after clone / saveload, or the slice.
    pub other: Option<Box<dyn Graph>>,
    /// The right graph of a merge (real + model), after the call.
    pub merge_h: Option<(Box<dyn Graph>, Model)>,
    /// State of the vertex read, before a data() call: (had data, was unread, group size).
    pub read_ctx: Option<(bool, bool, usize)>,
}

pub struct Session {
    pub n: usize,
    pub cap: usize,
    pub g: Box<dyn Graph>,
    pub m: Model,
    pub workdir: PathBuf,
    pub sink: Option<std::fs::File>,
    pub calls: u64,
    pub seq: u64,
    pub ops: Vec<Op>,
    file_no: u64,
    /// A second, unrelated graph of the same type alive on the same thread: between the calls
    /// of the history it forms a group, fills, reads and collects it, over rotating ids that overlap
    /// the ids of the graph under observation. Nothing it does may show in the observed graph
    /// (statics, thread-locals, caches keyed by id would).
    bystander: Option<Box<dyn Graph>>,
    _img: ImgGuard,
}

impl Session {
    pub fn new(n: usize, cap: usize, workdir: &std::path::Path) -> Self {
        Self {
            n,
            cap,
            g: new_graph(n, cap),
            m: Model::new(n, cap),
            workdir: workdir.to_path_buf(),
            sink: None,
            calls: 0,
            seq: 0,
            ops: vec![],
            file_no: 0,
            bystander: if cap >= 2 { guarded(|| new_graph(n, cap)).ok() } else { None },
            _img: ImgGuard(workdir.join(format!("sl-{}-img.sodg", std::process::id()))),
        }
    }

    /// One step of the bystander's fixed cycle (a pure function of the call counter, so replays repeat it).
    fn bystander_step(&mut self) {
        let (k, cap) = (self.seq as usize, self.cap);
        let Some(b) = &mut self.bystander else { return };
        let c = k / 8;
        let (x, y) = ((2 * c) % cap, (2 * c + 1) % cap);
        if x == y {
            return;
        }
        let l = if c % 2 == 0 { Label::Alpha(c % 3) } else { Label::Greek('ρ') };
        let r = guarded(|| match k % 8 {
            0 => b.add(x),
            1 => b.add(y),
            2 => b.bind(x, y, l),
            3 => b.put(x, &sodg::Hex::from_vec(vec![(c % 251) as u8 ^ 0x5A; 1 + c % 13])),
            4 => b.put(y, &sodg::Hex::from_vec(vec![(c % 241) as u8 ^ 0xA5; c % 11])),
            5 => {
                // first read and a re-read while the group is still alive, and the edge queries
                let _ = b.data(x);
                let _ = b.data(x);
                let _ = b.kid(x, l);
                let _ = b.kids(x);
            }
            6 => {
                let _ = b.v_print(x);
                let _ = b.inspect(x);
            }
            _ => {
                let _ = b.data(y);
            }
        });
        if r.is_err() {
            // not this graph's business; stop disturbing
            self.bystander = None;
        }
    }

    pub fn tmp_file(&mut self, tag: &str) -> PathBuf {
        self.file_no += 1;
        self.workdir.join(format!("{tag}-{}-{}.sodg", std::process::id(), self.file_no))
    }

    fn enter(&mut self, op: &Op) {
        self.seq += 1;
        if let Some(f) = &mut self.sink {
            let _ = writeln!(f, "{}", op.text());
            let _ = f.flush();
        }
    }

    /// Execute one op on the real graph and on the model.
    pub fn step(&mut self, op: &Op) -> Outcome {
        self.enter(op);
        self.bystander_step();
        self.ops.push(op.clone());
        self.calls += 1;
        let keys_before = self.g.keys();
        let mut o = Outcome {
            ret: Ret::Unit,
            panic: None,
            keys_before,
            keys_after: vec![],
            model_ret: None,
            model_removed: vec![],
            prims: vec![],
            adopt_error: None,
            bind_arm: None,
            other: None,
            merge_h: None,
            read_ctx: None,
        };
        match op {
            Op::Add(v) => {
                let g = &mut self.g;
                o.panic = guarded(|| g.add(*v)).err();
                self.m.add(*v);
                o.prims.push(Prim::Add(*v));
            }
            Op::Bind(a, b, l) => {
                let g = &mut self.g;
                o.panic = guarded(|| g.bind(*a, *b, *l)).err();
                if self.m.present(*a) && self.m.present(*b) {
                    o.bind_arm = Some(self.m.bind(*a, *b, *l));
                }
                o.prims.push(Prim::Bind(*a, *b, *l));
            }
            Op::Put(v, d) => {
                let h = d.to_hex();
                let g = &mut self.g;
                o.panic = guarded(|| g.put(*v, &h)).err();
                if self.m.present(*v) {
                    self.m.put(*v, &d.bytes());
                }
                o.prims.push(Prim::Put(*v, d.bytes()));
            }
            Op::Data(v) => {
                if let Some(x) = self.m.verts.get(v) {
                    let gs = x.group.map_or(0, |g| self.m.groups[&g].len());
                    o.read_ctx = Some((x.data.is_some(), x.unread, gs));
                }
                let g = &mut self.g;
                match guarded(|| g.data(*v)) {
                    Ok(r) => o.ret = Ret::Data(r.map(|h| h.bytes().to_vec())),
                    Err(p) => o.panic = Some(p),
                }
                if self.m.present(*v) {
                    let (d, removed) = self.m.data(*v);
                    o.model_ret = Some(Ret::Data(d));
                    o.model_removed = removed;
                }
            }
            Op::Kid(v, l) => {
                let g = &self.g;
                match guarded(|| g.kid(*v, *l)) {
                    Ok(r) => o.ret = Ret::Kid(r),
                    Err(p) => o.panic = Some(p),
                }
                if self.m.present(*v) {
                    o.model_ret = Some(Ret::Kid(self.m.kid(*v, *l)));
                }
            }
            Op::Kids(v) => {
                let g = &self.g;
                match guarded(|| g.kids(*v)) {
                    Ok(r) => o.ret = Ret::Kids(r),
                    Err(p) => o.panic = Some(p),
                }
                if let Some(x) = self.m.verts.get(v) {
                    o.model_ret = Some(Ret::Kids(x.edges.clone()));
                }
            }
            Op::NextId => {
                let g = &mut self.g;
                match guarded(|| g.next_id()) {
                    Ok(id) => {
                        o.ret = Ret::Id(id);
                        o.model_ret = self.m.peek_next_id().map(Ret::Id);
                        // the model adopts the observed id; freshness is judged by C05's monitor
                        self.m.adopt_next_id(id);
                        o.prims.push(Prim::NextId(id));
                    }
                    Err(p) => o.panic = Some(p),
                }
            }
            Op::Clone { swap } => {
                let g = &self.g;
                match guarded(|| g.clone_box()) {
                    Ok(c) => {
                        if *swap {
                            o.other = Some(std::mem::replace(&mut self.g, c));
                        } else {
                            o.other = Some(c);
                        }
                    }
                    Err(p) => o.panic = Some(p),
                }
            }
            Op::SaveLoad { swap } => {
                // one image path per process, written over and over ("checkpoint file"): a shorter image
                // lands on a longer older one; removed when the session ends
                let path = self.workdir.join(format!("sl-{}-img.sodg", std::process::id()));
                let g = &self.g;
                let n = self.n;
                // interaction: one reload in three is preceded by a load() of a truncated copy of the
                // image (rejected; C09 judges that). Nothing of it may be left for the real load().
                let interfere = self.ops.len() % 3 == 0;
                let r = guarded(|| -> Result<Box<dyn Graph>, String> {
                    g.save(&path)?;
                    if interfere {
                        if let Ok(b) = std::fs::read(&path) {
                            let cut = path.with_extension("cut");
                            if std::fs::write(&cut, &b[..b.len() / 2]).is_ok() {
                                let _ = guarded(|| load_graph(n, &cut).map(|l| l.len()));
                            }
                            let _ = std::fs::remove_file(&cut);
                        }
                    }
                    load_graph(n, &path)
                });
                match r {
                    Ok(Ok(l)) => {
                        o.ret = Ret::Res(Ok(String::new()));
                        if *swap {
                            o.other = Some(std::mem::replace(&mut self.g, l));
                            let pos = guarded(|| self.g.snapshot().next_v).unwrap_or(0);
                            self.m.after_reload(pos);
                        } else {
                            o.other = Some(l);
                        }
                    }
                    Ok(Err(e)) => o.ret = Ret::Res(Err(e.replace(&path.display().to_string(), "<file>"))),
                    Err(p) => o.panic = Some(p),
                }
            }
            Op::Slice(v) => {
                let g = &self.g;
                match guarded(|| g.slice(*v)) {
                    Ok(Ok(s)) => {
                        o.ret = Ret::Res(Ok(String::new()));
                        o.other = Some(s);
                    }
                    Ok(Err(e)) => o.ret = Ret::Res(Err(e)),
                    Err(p) => o.panic = Some(p),
                }
            }
            Op::Merge { h, left, right } => {
                let (n, cap) = (self.n, crate::ops::h_capacity(self.cap, h));
                let built = guarded(|| {
                    let mut hg = new_graph(n, cap);
                    for hop in h {
                        match hop {
                            Op::Add(v) => hg.add(*v),
                            Op::Bind(a, b, l) => hg.bind(*a, *b, *l),
                            Op::Put(v, d) => hg.put(*v, &d.to_hex()),
                            Op::Data(v) => {
                                let _ = hg.data(*v);
                            }
                            _ => {}
                        }
                    }
                    hg
                });
                match built {
                    Err(p) => o.panic = Some(format!("while building the right graph: {p}")),
                    Ok(hg) => {
                        let g = &mut self.g;
                        match guarded(|| g.merge(hg.as_ref(), *left, *right)) {
                            Ok(r) => o.ret = Ret::Res(r.map(|()| String::new())),
                            Err(p) => o.panic = Some(p),
                        }
                        if let Some(hm) = Model::build(n, cap, h) {
                            if o.panic.is_none() && matches!(o.ret, Ret::Res(Ok(_))) {
                                let (m, g) = (&mut self.m, &self.g);
                                match guarded(|| m.apply_merge_observed(&hm, *left, *right, g.as_ref())) {
                                    Ok(Ok(evs)) => o.prims = evs,
                                    Ok(Err(e)) => o.adopt_error = Some(e),
                                    Err(p) => o.adopt_error = Some(format!("a query panicked while walking the merged graph: {p}")),
                                }
                            }
                            o.merge_h = Some((hg, hm));
                        }
                    }
                }
            }
            Op::Script { text, cmds, fault_at } => {
                let g = &mut self.g;
                let r = guarded(|| {
                    let mut s = Script::from_str(text);
                    g.deploy(&mut s)
                });
                match r {
                    Ok(r) => o.ret = Ret::Res(r.map(|c| c.to_string())),
                    Err(p) => o.panic = Some(p),
                }
                let upto = fault_at.unwrap_or(cmds.len());
                match self.m.apply_script(&cmds[..upto.min(cmds.len())]) {
                    Some(evs) => {
                        o.prims = evs;
                        o.model_ret = Some(Ret::Res(if fault_at.is_some() {
                            Err(String::new())
                        } else {
                            Ok(cmds.len().to_string())
                        }));
                    }
                    None => o.adopt_error = Some("model: script not legal".to_string()),
                }
            }
            Op::Export => {
                let g = &self.g;
                match guarded(|| texts(g.as_ref())) {
                    Ok(t) => o.ret = Ret::Texts(t),
                    Err(p) => o.panic = Some(p),
                }
            }
        }
        o.keys_after = match guarded(|| self.g.keys()) {
            Ok(k) => k,
            Err(p) => {
                if o.panic.is_none() {
                    o.panic = Some(format!("keys(): {p}"));
                }
                vec![]
            }
        };
        o
    }

    pub fn alive_agrees(&self, o: &Outcome) -> bool {
        o.keys_after == self.m.keys()
    }
}

/// Debug/Display end with one line per group slot, `b<k>: {members}`. Which slot number a group
/// got is not among the things any statement speaks about (C08 lists edges, data, read status and
/// collections; C20 vertices, edges and data), and it legitimately differs between two graphs that
/// behave identically (e.g. a slot hint that is not serialised). For comparisons BETWEEN two graphs
/// the numbers of the group slots (k >= 2) are therefore blanked and those lines sorted; the member
/// lists themselves are compared. (C20 parses the text of one graph and does not use this.)
pub fn blank_slot_numbers(txt: &str) -> String {
    let mut head: Vec<&str> = vec![];
    let mut slots: Vec<String> = vec![];
    for line in txt.lines() {
        let is_slot = line.strip_prefix('b').and_then(|r| r.split_once(": {")).is_some_and(|(k, _)| k.parse::<usize>().is_ok_and(|k| k >= 2));
        if is_slot {
            slots.push(format!("b*: {}", line.split_once(": ").map_or("", |x| x.1)));
        } else {
            head.push(line);
        }
    }
    slots.sort();
    let mut out = head.join("\n");
    for l in slots {
        out.push('\n');
        out.push_str(&l);
    }
    out
}

pub fn texts(g: &dyn Graph) -> Texts {
    let keys = g.keys();
    Texts {
        xml: g.to_xml(),
        dot: g.to_dot(),
        debug: blank_slot_numbers(&g.debug()),
        display: blank_slot_numbers(&g.display()),
        inspect: keys.iter().map(|v| (*v, g.inspect(*v))).collect(),
        v_print: keys.iter().map(|v| (*v, g.v_print(*v))).collect(),
    }
}

// -------------------------------------------------------------------- observations / digests

pub const O_KEYS: u8 = 1;
pub const O_EDGES: u8 = 2;
pub const O_TEXT: u8 = 4;
pub const O_INSPECT: u8 = 8;

/// Canonical text of the chosen observation levels (public API only).
pub fn digest(g: &dyn Graph, levels: u8, labels: &[Label]) -> String {
    let mut out = String::new();
    let keys = g.keys();
    if levels & O_KEYS != 0 {
        out.push_str(&format!("keys={keys:?} len={} empty={}\n", g.len(), g.is_empty()));
    }
    if levels & O_EDGES != 0 {
        for v in &keys {
            let ks = g.kids(*v);
            out.push_str(&format!(
                "ν{v} kids=[{}]",
                ks.iter().map(|(l, t)| format!("{}→{t}", label_text(l))).collect::<Vec<_>>().join(",")
            ));
            for l in labels {
                out.push_str(&format!(" kid({})={:?}", label_text(l), g.kid(*v, *l)));
            }
            out.push_str(&format!(" vp={:?}\n", g.v_print(*v)));
        }
    }
    if levels & O_TEXT != 0 {
        out.push_str(&format!("debug={}\ndisplay={}\n", blank_slot_numbers(&g.debug()), blank_slot_numbers(&g.display())));
        out.push_str(&format!("xml={:?}\ndot={}\n", g.to_xml(), g.to_dot()));
    }
    if levels & O_INSPECT != 0 {
        for v in &keys {
            out.push_str(&format!("inspect({v})={:?}\n", g.inspect(*v)));
        }
    }
    out
}

/// First differing line of two digests.
pub fn first_diff(a: &str, b: &str) -> String {
    for (i, (x, y)) in a.lines().zip(b.lines()).enumerate() {
        if x != y {
            return format!("line {i}: {x:?} vs {y:?}");
        }
    }
    format!("lengths differ: {} vs {} lines", a.lines().count(), b.lines().count())
}

pub fn snap_hash(s: &sodg::VerifSnapshot) -> u64 {
    let mut f = Fnv::new();
    f.write_u64(s.capacity as u64);
    for x in &s.slots {
        f.write_u64(x.id as u64);
        f.write_u64(x.branch as u64);
        f.write(&[x.persistence, u8::from(x.data_inline)]);
        f.write(&x.data);
        for (l, t) in &x.edges {
            f.write_str(&label_text(l));
            f.write_u64(*t as u64);
        }
    }
    for (b, m) in &s.members {
        f.write_u64(*b as u64);
        for v in m {
            f.write_u64(*v as u64);
        }
        f.write(&[0xFE]);
    }
    for (b, c) in &s.stores {
        f.write_u64(*b as u64);
        f.write_u64(*c as u64);
    }
    f.write_u64(s.next_v as u64);
    f.0
}

/// Latent anomalies in the snapshot (trigger for probes, never a verdict): counters vs recount,
/// tags vs member lists, sentinels.
pub fn snap_anomalies(s: &sodg::VerifSnapshot) -> Vec<String> {
    let mut out = vec![];
    let slot = |id: usize| s.slots.iter().find(|x| x.id == id);
    for (b, ms) in &s.members {
        if *b < 2 {
            if ms.as_slice() != [0] {
                out.push(format!("sentinel list b{b} is {ms:?}"));
            }
            continue;
        }
        let mut unread = 0;
        for m in ms {
            match slot(*m) {
                Some(x) if x.branch == *b => {
                    if x.persistence == 1 {
                        unread += 1;
                    }
                }
                Some(x) => out.push(format!("ν{m} listed in b{b} but tagged {}", x.branch)),
                None => out.push(format!("ν{m} listed in b{b} but slot is empty")),
            }
        }
        let mut dup = ms.clone();
        dup.sort_unstable();
        dup.dedup();
        if dup.len() != ms.len() {
            out.push(format!("b{b} lists a vertex twice: {ms:?}"));
        }
        let c = s.stores.iter().find(|(k, _)| k == b).map_or(0, |(_, c)| *c);
        if !ms.is_empty() && c != unread {
            out.push(format!("counter of b{b} is {c}, recount of unread members is {unread}"));
        }
    }
    for x in &s.slots {
        if x.branch >= 2 {
            let listed = s.members.iter().any(|(b, ms)| *b == x.branch && ms.contains(&x.id));
            if !listed {
                out.push(format!("ν{} tagged b{} but not in its member list", x.id, x.branch));
            }
        }
    }
    out
}

/// Execute an op on a bare graph (a twin), outside any session; Err = panic message.
/// Slice returns the digest of the slice so that twins can be compared.
pub fn exec_raw(
    g: &mut Box<dyn Graph>,
    op: &Op,
    work: &std::path::Path,
    uniq: &mut u64,
    labels: &[Label],
) -> Result<Ret, String> {
    let n = g.n();
    guarded(|| match op {
        Op::Add(v) => {
            g.add(*v);
            Ret::Unit
        }
        Op::Bind(a, b, l) => {
            g.bind(*a, *b, *l);
            Ret::Unit
        }
        Op::Put(v, d) => {
            g.put(*v, &d.to_hex());
            Ret::Unit
        }
        Op::Data(v) => Ret::Data(g.data(*v).map(|h| h.bytes().to_vec())),
        Op::Kid(v, l) => Ret::Kid(g.kid(*v, *l)),
        Op::Kids(v) => Ret::Kids(g.kids(*v)),
        Op::NextId => Ret::Id(g.next_id()),
        Op::Clone { swap } => {
            let c = g.clone_box();
            if *swap {
                *g = c;
            }
            Ret::Unit
        }
        Op::SaveLoad { swap } => {
            *uniq += 1;
            let path = work.join(format!("tw-{}-{}.sodg", std::process::id(), *uniq));
            let r = g.save(&path).and_then(|_| load_graph(n, &path));
            let _ = std::fs::remove_file(&path);
            match r {
                Ok(l) => {
                    if *swap {
                        *g = l;
                    }
                    Ret::Res(Ok(String::new()))
                }
                Err(e) => Ret::Res(Err(e.replace(&path.display().to_string(), "<file>"))),
            }
        }
        Op::Slice(v) => match g.slice(*v) {
            Ok(s) => Ret::Res(Ok(slice_signature(s, labels))),
            Err(e) => Ret::Res(Err(e)),
        },
        Op::Merge { h, left, right } => {
            let cap = crate::ops::h_capacity(g.snapshot().capacity, h);
            let mut hg = new_graph(n, cap);
            for hop in h {
                match hop {
                    Op::Add(v) => hg.add(*v),
                    Op::Bind(a, b, l) => hg.bind(*a, *b, *l),
                    Op::Put(v, d) => hg.put(*v, &d.to_hex()),
                    Op::Data(v) => {
                        let _ = hg.data(*v);
                    }
                    _ => {}
                }
            }
            Ret::Res(g.merge(hg.as_ref(), *left, *right).map(|()| String::new()))
        }
        Op::Script { text, .. } => {
            let mut s = Script::from_str(text);
            Ret::Res(g.deploy(&mut s).map(|c| c.to_string()))
        }
        Op::Export => Ret::Texts(texts(g.as_ref())),
    })
}

/// Everything observable about a slice, including how it behaves when it is used as a graph:
/// all printers, then a datum is put on every vertex and read back in ascending id order, with
/// the present set after every read (this makes the group partition of the slice observable).
pub fn slice_signature(mut sl: Box<dyn Graph>, labels: &[Label]) -> String {
    let mut out = digest(sl.as_ref(), O_KEYS | O_EDGES | O_TEXT | O_INSPECT, labels);
    let keys = sl.keys();
    let r = guarded(|| {
        let mut t = String::new();
        for v in &keys {
            sl.put(*v, &sodg::Hex::from_vec(vec![*v as u8, 1, 2, 3, 4, 5, 6, 7, 8]));
        }
        for v in &keys {
            if sl.keys().contains(v) {
                let d = sl.data(*v).map(|h| h.len());
                t.push_str(&format!("data({v})={d:?} keys={:?}\n", sl.keys()));
            }
        }
        t
    });
    match r {
        Ok(t) => out.push_str(&t),
        Err(_) => out.push_str("PANIC while using the slice\n"),
    }
    out
}

/// The datum every present vertex really holds, read non-destructively through the hook
/// (None = no datum). Used as the reference by the printers' monitors, so that a defect in put()/
/// data() cannot be blamed on a printer that prints what is really there.
pub fn real_data(g: &dyn Graph) -> std::collections::BTreeMap<usize, Option<Vec<u8>>> {
    g.snapshot()
        .slots
        .iter()
        .filter(|x| x.branch != 0)
        .map(|x| (x.id, if x.persistence == 0 { None } else { Some(x.data.clone()) }))
        .collect()
}

/// Do the kids() of every present vertex agree (as a set) with the edges the vertex really stores
/// (hook)? If they do not, the defect is in kids()/bind() (C03's subject) and the monitors that
/// take kids() as their reference for "the edges of the graph" (C13, C18, C20) have no reference:
/// they skip that state and count it.
pub fn kids_match_stored_edges(g: &dyn Graph) -> bool {
    let snap = g.snapshot();
    snap.slots.iter().filter(|x| x.branch != 0).all(|x| match guarded(|| g.kids(x.id)) {
        Ok(mut k) => {
            let mut e = x.edges.clone();
            k.sort();
            e.sort();
            k == e
        }
        Err(_) => false,
    })
}
