//! Own PRNG (splitmix64 seeding + xoshiro256**), so that histories replay from a seed
//! independent of any crate version.

#[derive(Clone)]
pub struct Rng {
    s: [u64; 4],
}

pub fn splitmix(x: &mut u64) -> u64 {
    *x = x.wrapping_add(0x9E37_79B9_7F4A_7C15);
    let mut z = *x;
    z = (z ^ (z >> 30)).wrapping_mul(0xBF58_476D_1CE4_E5B9);
    z = (z ^ (z >> 27)).wrapping_mul(0x94D0_49BB_1331_11EB);
    z ^ (z >> 31)
}

/// Mix several integers into one seed.
pub fn mix(parts: &[u64]) -> u64 {
    let mut x = 0x5EED_5EED_5EED_5EEDu64;
    let mut out = 0u64;
    for p in parts {
        x ^= *p;
        out = splitmix(&mut x) ^ out.rotate_left(17);
    }
    out
}

impl Rng {
    pub fn new(seed: u64) -> Self {
        let mut x = seed;
        let s = [splitmix(&mut x), splitmix(&mut x), splitmix(&mut x), splitmix(&mut x)];
        Self { s }
    }
    pub fn next(&mut self) -> u64 {
        let r = self.s[1].wrapping_mul(5).rotate_left(7).wrapping_mul(9);
        let t = self.s[1] << 17;
        self.s[2] ^= self.s[0];
        self.s[3] ^= self.s[1];
        self.s[1] ^= self.s[2];
        self.s[0] ^= self.s[3];
        self.s[2] ^= t;
        self.s[3] = self.s[3].rotate_left(45);
        r
    }
    /// Uniform in 0..n (n > 0).
    pub fn below(&mut self, n: usize) -> usize {
        debug_assert!(n > 0);
        (self.next() % (n as u64)) as usize
    }
    /// Uniform in lo..=hi.
    pub fn range(&mut self, lo: usize, hi: usize) -> usize {
        lo + self.below(hi - lo + 1)
    }
    pub fn chance(&mut self, num: usize, den: usize) -> bool {
        self.below(den) < num
    }
    pub fn pick<'a, T>(&mut self, xs: &'a [T]) -> &'a T {
        &xs[self.below(xs.len())]
    }
    pub fn weighted(&mut self, ws: &[u32]) -> usize {
        let total: u64 = ws.iter().map(|w| u64::from(*w)).sum();
        debug_assert!(total > 0);
        let mut r = self.next() % total;
        for (i, w) in ws.iter().enumerate() {
            if r < u64::from(*w) {
                return i;
            }
            r -= u64::from(*w);
        }
        ws.len() - 1
    }
    pub fn shuffle<T>(&mut self, xs: &mut [T]) {
        for i in (1..xs.len()).rev() {
            let j = self.below(i + 1);
            xs.swap(i, j);
        }
    }
    pub fn bytes(&mut self, n: usize) -> Vec<u8> {
        (0..n).map(|_| (self.next() & 0xFF) as u8).collect()
    }
}

/// FNV-1a 64 for hashing observations (stable across processes, unlike RandomState).
#[derive(Clone, Copy)]
pub struct Fnv(pub u64);
impl Default for Fnv {
    fn default() -> Self {
        Fnv(0xcbf2_9ce4_8422_2325)
    }
}
impl Fnv {
    pub fn new() -> Self {
        Self::default()
    }
    pub fn write(&mut self, bs: &[u8]) {
        for b in bs {
            self.0 ^= u64::from(*b);
            self.0 = self.0.wrapping_mul(0x0100_0000_01b3);
        }
    }
    pub fn write_u64(&mut self, x: u64) {
        self.write(&x.to_le_bytes());
    }
    pub fn write_str(&mut self, s: &str) {
        self.write(s.as_bytes());
        self.write(&[0xFF]);
    }
}
pub fn fnv_str(s: &str) -> u64 {
    let mut f = Fnv::new();
    f.write_str(s);
    f.0
}
