//! Script programs: AST generation (legal w.r.t. the model), rendering with random legal
//! formatting, and single-fault corruptions (DESIGN.md §4 C14).

use crate::model::Model;
use crate::ops::{label_show, spec_label, Cmd, Ident};
use crate::rng::Rng;
use sodg::Label;
use std::collections::BTreeMap;

pub struct ScriptGen {
    pub rng: Rng,
    label_texts: Vec<String>,
    name_shift: usize,
    /// One generator in four renders every command in one fixed way (no optional spaces, comments or nu-prefixes), so that
    /// a command that occurs twice in a program occurs twice with the very same text.
    plain: bool,
}

// case-colliding (x/X), prefix-colliding (a/ab) and digit-only names on purpose
const VAR_NAMES: [&str; 12] = ["x", "ν1", "X", "a", "ab", "v_2", "1", "foo", "ν", "Z9", "φ", "A"];
const COMMENTS: [&str; 7] = ["c", "ADD(1);", ") oops", "# nested", "; ; ;", "ν3 $v", "PUT(0, zz"];

impl ScriptGen {
    pub fn new(seed: u64, labels: &[Label]) -> Self {
        let label_texts = labels
            .iter()
            .map(label_show)
            .filter(|t| spec_label(t).is_some() && !t.contains([',', ')', '(', ';', '#', '$']))
            .collect::<Vec<_>>();
        let mut rng = Rng::new(seed);
        let name_shift = rng.below(VAR_NAMES.len());
        let plain = rng.chance(1, 4);
        Self { rng, label_texts, name_shift, plain }
    }

    /// Generate a program of min..=max commands legal for model `m`; returns AST and rendering.
    pub fn program(&mut self, m: &Model, min: usize, max: usize) -> Option<(Vec<Cmd>, String)> {
        let cmds = self.ast(m, min, max)?;
        let text = self.render(&cmds, None);
        Some((cmds, text))
    }

    pub fn ast(&mut self, m: &Model, min: usize, max: usize) -> Option<Vec<Cmd>> {
        if self.label_texts.is_empty() {
            self.label_texts.push("foo".to_string());
        }
        let want = self.rng.range(min, max);
        let mut sim = m.clone();
        let mut vars: BTreeMap<String, usize> = BTreeMap::new();
        let mut cmds: Vec<Cmd> = vec![];
        let mut guard = 0;
        while cmds.len() < want && guard < want * 20 {
            guard += 1;
            let kind = self.rng.weighted(&[35, 35, 30]);
            // one command in seven repeats an earlier command of the program verbatim (after others may have overridden it)
            let repeat = if !cmds.is_empty() && self.rng.chance(1, 7) { Some(self.rng.pick(&cmds).clone()) } else { None };
            let cand: Option<Cmd> = if let Some(r) = repeat { Some(r) } else { match kind {
                0 => {
                    // ADD: new variable, literal absent, literal present
                    match self.rng.below(10) {
                        0..=4 if vars.len() < 6 => {
                            let name = VAR_NAMES[(vars.len() + self.name_shift) % VAR_NAMES.len()].to_string();
                            if vars.contains_key(&name) {
                                None
                            } else {
                                Some(Cmd::Add(Ident::Var(name)))
                            }
                        }
                        5..=8 => {
                            let abs = sim.absent_ids();
                            if abs.is_empty() {
                                None
                            } else {
                                Some(Cmd::Add(Ident::Lit(*self.rng.pick(&abs))))
                            }
                        }
                        _ => {
                            let ks = sim.keys();
                            if ks.is_empty() {
                                None
                            } else {
                                Some(Cmd::Add(Ident::Lit(*self.rng.pick(&ks))))
                            }
                        }
                    }
                }
                1 => {
                    let ks = sim.keys();
                    if ks.len() < 2 {
                        None
                    } else {
                        let v1 = *self.rng.pick(&ks);
                        let v2 = *self.rng.pick(&ks);
                        let l = self.rng.pick(&self.label_texts).clone();
                        Some(Cmd::Bind(self.ident_for(v1, &vars), self.ident_for(v2, &vars), l))
                    }
                }
                _ => {
                    let ks = sim.keys();
                    if ks.is_empty() {
                        None
                    } else {
                        let v = *self.rng.pick(&ks);
                        let len = *self.rng.pick(&[1usize, 1, 2, 7, 8, 9, 12, 16, 40]);
                        Some(Cmd::Put(self.ident_for(v, &vars), self.rng.bytes(len)))
                    }
                }
            } };
            let Some(c) = cand else { continue };
            // legality by trial on a copy
            let mut trial = sim.clone();
            let mut tv = vars.clone();
            if apply_one(&mut trial, &mut tv, &c).is_some() {
                sim = trial;
                vars = tv;
                cmds.push(c);
            }
        }
        if cmds.len() < min {
            None
        } else {
            Some(cmds)
        }
    }

    fn ident_for(&mut self, v: usize, vars: &BTreeMap<String, usize>) -> Ident {
        let named: Vec<&String> = vars.iter().filter(|(_, id)| **id == v).map(|(k, _)| k).collect();
        if !named.is_empty() && self.rng.chance(3, 4) {
            Ident::Var((*self.rng.pick(&named)).clone())
        } else {
            Ident::Lit(v)
        }
    }

    fn ws(&mut self, allow_comment: bool) -> String {
        let mut s = String::new();
        if self.plain {
            return s;
        }
        let k = self.rng.below(4);
        for _ in 0..k {
            match self.rng.below(if allow_comment { 8 } else { 6 }) {
                0..=2 => s.push(' '),
                3 => s.push('\t'),
                4..=5 => s.push('\n'),
                _ => {
                    s.push_str("# ");
                    s.push_str(*self.rng.pick(&COMMENTS));
                    s.push('\n');
                }
            }
        }
        s
    }

    fn ident(&mut self, i: &Ident) -> String {
        match i {
            Ident::Lit(v) => {
                if !self.plain && self.rng.chance(1, 2) {
                    format!("ν{v}")
                } else {
                    format!("{v}")
                }
            }
            Ident::Var(n) => format!("${n}"),
        }
    }

    fn hexdata(&mut self, d: &[u8]) -> String {
        if self.plain {
            return crate::ops::hex(d);
        }
        let sep_mode = self.rng.below(5);
        let mut s = String::new();
        for (i, b) in d.iter().enumerate() {
            if i > 0 {
                match sep_mode {
                    0 => {}
                    1 => s.push('-'),
                    2 => s.push(' '),
                    3 => s.push_str(*self.rng.pick(&["", "-", " ", "\t", "\n", " - "])),
                    _ => s.push('-'),
                }
            }
            let hi = b >> 4;
            let lo = b & 0xF;
            for nib in [hi, lo] {
                let c = char::from_digit(u32::from(nib), 16).unwrap();
                if self.rng.chance(1, 2) {
                    s.push(c.to_ascii_uppercase());
                } else {
                    s.push(c);
                }
            }
        }
        s
    }

    fn render_cmd(&mut self, c: &Cmd) -> String {
        let (name, args): (&str, Vec<String>) = match c {
            Cmd::Add(i) => ("ADD", vec![self.ident(i)]),
            Cmd::Bind(a, b, l) => ("BIND", vec![self.ident(a), self.ident(b), l.clone()]),
            Cmd::Put(i, d) => ("PUT", vec![self.ident(i), self.hexdata(d)]),
        };
        let mut s = String::new();
        s.push_str(name);
        for _ in 0..(if self.plain { 0 } else { self.rng.below(3) }) {
            s.push(' ');
        }
        s.push('(');
        for (k, a) in args.iter().enumerate() {
            if k > 0 {
                s.push(',');
            }
            s.push_str(&self.ws(true));
            s.push_str(a);
            s.push_str(&self.ws(true));
        }
        s.push(')');
        s
    }

    /// Render the program; with `fault = Some((k, kind))` command k is replaced by a corrupted text.
    pub fn render(&mut self, cmds: &[Cmd], fault: Option<(usize, usize)>) -> String {
        let mut s = self.ws(true);
        for (i, c) in cmds.iter().enumerate() {
            let body = match fault {
                Some((k, kind)) if k == i => self.corrupt(c, kind),
                _ => self.render_cmd(c),
            };
            s.push_str(&body);
            s.push_str(&self.ws(true));
            if i + 1 < cmds.len() || self.rng.chance(3, 4) {
                s.push(';');
            }
            s.push_str(&self.ws(true));
        }
        s
    }

    /// Position and kind of a single-fault corruption: a command that introduces no new variable.
    pub fn pick_fault(cmds: &[Cmd], rng: &mut Rng) -> Option<(usize, usize)> {
        let mut known: Vec<String> = vec![];
        let mut ok_pos = vec![];
        for (i, c) in cmds.iter().enumerate() {
            let idents: Vec<&Ident> = match c {
                Cmd::Add(i) | Cmd::Put(i, _) => vec![i],
                Cmd::Bind(a, b, _) => vec![a, b],
            };
            if !idents.iter().any(|x| matches!(x, Ident::Var(n) if !known.contains(n))) {
                ok_pos.push(i);
            }
            for x in idents {
                if let Ident::Var(n) = x {
                    if !known.contains(n) {
                        known.push(n.clone());
                    }
                }
            }
        }
        if ok_pos.is_empty() {
            None
        } else {
            Some((*rng.pick(&ok_pos), rng.below(Self::FAULT_KINDS)))
        }
    }

    pub const FAULT_KINDS: usize = 12;
    pub fn fault_name(kind: usize) -> &'static str {
        [
            "unknown-command",
            "lowercase-command",
            "empty-command-name",
            "missing-open-paren",
            "missing-close-paren",
            "missing-argument",
            "non-numeric-id",
            "nu-without-digits",
            "odd-hex-digits",
            "non-hex-data",
            "label-too-long",
            "alpha-without-index",
        ][kind]
    }

    /// A corrupted rendering of command `c` (uses only the literal/bound identifiers of `c`).
    fn corrupt(&mut self, c: &Cmd, kind: usize) -> String {
        let good = {
            // compact rendering without comments, to corrupt predictably
            match c {
                Cmd::Add(i) => ("ADD", vec![self.ident(i)]),
                Cmd::Bind(a, b, l) => ("BIND", vec![self.ident(a), self.ident(b), l.clone()]),
                Cmd::Put(i, d) => ("PUT", vec![self.ident(i), crate::ops::hex(d)]),
            }
        };
        let (name, mut args) = (good.0.to_string(), good.1);
        let join = |name: &str, args: &[String]| format!("{name}({})", args.join(", "));
        match kind {
            0 => join(*self.rng.pick(&["DEL", "ADDX", "BIN", "PUTS", "X"]), &args),
            1 => join(&name.to_lowercase(), &args),
            2 => join("", &args),
            3 => format!("{name} {})", args.join(", ")),
            4 => format!("{name}({}", args.join(", ")),
            5 => {
                args.pop();
                join(&name, &args)
            }
            6 => {
                args[0] = self.rng.pick(&["x1", "one", "3a", "-1", "1.0", "0x10"]).to_string();
                join(&name, &args)
            }
            7 => {
                args[0] = "ν".to_string();
                join(&name, &args)
            }
            8 => match c {
                Cmd::Put(..) => {
                    args[1].push('a');
                    join(&name, &args)
                }
                _ => join("PUT", &[args[0].clone(), "abc".to_string()]),
            },
            9 => match c {
                Cmd::Put(..) => {
                    args[1] = self
                        .rng
                        .pick(&[
                            "zz", "0g", "hello!", "12-3x", "+E", "CA-+E", "-1", "1_", "C€-FE", "€€", "é1", "1é", "١٢", "A𝜑", "0x", "CA-FE-+1", "ＡＢ",
                        ])
                        .to_string();
                    join(&name, &args)
                }
                _ => join("PUT", &[args[0].clone(), "zz".to_string()]),
            },
            10 => match c {
                Cmd::Bind(..) => {
                    args[2] = self.rng.pick(&["abcdefghi", "123456789", "ρρρρρρρρρ", "toolonglabel"]).to_string();
                    join(&name, &args)
                }
                _ => join("BIND", &[args[0].clone(), args[0].clone(), "abcdefghi".to_string()]),
            },
            _ => match c {
                Cmd::Bind(..) => {
                    args[2] = self.rng.pick(&["α", "αx", "α1x", "α-1"]).to_string();
                    join(&name, &args)
                }
                _ => join("BIND", &[args[0].clone(), args[0].clone(), "α".to_string()]),
            },
        }
    }
}

/// Apply one command to a model copy with a variable table (legality by trial).
pub fn apply_one(m: &mut Model, vars: &mut BTreeMap<String, usize>, c: &Cmd) -> Option<()> {
    let mut res = |m: &mut Model, i: &Ident| -> Option<usize> {
        match i {
            Ident::Lit(v) => Some(*v),
            Ident::Var(n) => {
                if let Some(v) = vars.get(n) {
                    Some(*v)
                } else {
                    let id = m.next_id()?;
                    vars.insert(n.clone(), id);
                    Some(id)
                }
            }
        }
    };
    match c {
        Cmd::Add(i) => {
            let v = res(m, i)?;
            if v >= m.cap {
                return None;
            }
            m.add(v);
        }
        Cmd::Bind(a, b, l) => {
            let v1 = res(m, a)?;
            let v2 = res(m, b)?;
            let lab = spec_label(l)?;
            if !m.legal_bind(v1, v2, lab) {
                return None;
            }
            m.bind(v1, v2, lab);
        }
        Cmd::Put(i, d) => {
            let v = res(m, i)?;
            if !m.present(v) || d.is_empty() {
                return None;
            }
            m.put(v, d);
        }
    }
    Some(())
}
