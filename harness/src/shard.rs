//! One shard of one check: runs cases, collects coverage, confirms/shrinks/writes violations.

use crate::json::{Counters, J};
use std::collections::BTreeSet;
use std::path::PathBuf;
use std::time::Instant;

pub struct ShardCfg {
    pub prop: String,
    pub seed: u64,
    pub shard: u64,
    pub shards: u64,
    /// Number of cases (histories / inputs / images) this shard should run.
    pub count: usize,
    pub thorough: bool,
    pub work: PathBuf,
    pub replays: PathBuf,
    /// Soft wall-clock budget in seconds: stop generating new cases after it (never a verdict).
    pub budget_s: f64,
    /// Extra mode string (e.g. "miri", "asan", "dump").
    pub mode: String,
}

pub struct ViolRec {
    pub message: String,
    pub replay: String,
    /// Stable key of the failing instance, matched against known_findings.json by the driver.
    pub signature: String,
}

pub struct ShardOut {
    pub evaluations: u64,
    pub nontrivial: BTreeSet<u64>,
    pub counters: Counters,
    pub samples: Vec<J>,
    pub violations: Vec<ViolRec>,
    pub configs: BTreeSet<(usize, usize)>,
    pub snaps: BTreeSet<u64>,
    pub mstates: BTreeSet<u64>,
    pub calls: u64,
    pub inconclusive: Option<String>,
    pub extra: J,
    pub started: Instant,
    pub exhaustive: bool,
}

impl ShardOut {
    pub fn new() -> Self {
        Self {
            evaluations: 0,
            nontrivial: BTreeSet::new(),
            counters: Counters::default(),
            samples: vec![],
            violations: vec![],
            configs: BTreeSet::new(),
            snaps: BTreeSet::new(),
            mstates: BTreeSet::new(),
            calls: 0,
            inconclusive: None,
            extra: J::obj(),
            started: Instant::now(),
            exhaustive: false,
        }
    }

    pub fn to_json(&self, cfg: &ShardCfg) -> J {
        J::obj()
            .with("property", J::s(&cfg.prop))
            .with("shard", J::Int(i128::from(cfg.shard)))
            .with("seed", J::Int(i128::from(cfg.seed)))
            .with("evaluations", J::Int(i128::from(self.evaluations)))
            .with(
                "nontrivial",
                J::Arr(self.nontrivial.iter().map(|h| J::Str(format!("{h:016x}"))).collect()),
            )
            .with("counters", self.counters.to_json())
            .with("samples", J::Arr(self.samples.clone()))
            .with(
                "violations",
                J::Arr(
                    self.violations
                        .iter()
                        .map(|v| {
                            J::obj()
                                .with("message", J::s(&v.message))
                                .with("replay", J::s(&v.replay))
                                .with("signature", J::s(&v.signature))
                        })
                        .collect(),
                ),
            )
            .with(
                "configs",
                J::Arr(self.configs.iter().map(|(n, c)| J::Arr(vec![J::i(*n), J::i(*c)])).collect()),
            )
            .with("distinct_snapshots", J::i(self.snaps.len()))
            .with("distinct_model_states", J::i(self.mstates.len()))
            .with("calls", J::Int(i128::from(self.calls)))
            .with("inconclusive", self.inconclusive.as_ref().map_or(J::Null, |s| J::s(s)))
            .with("extra", self.extra.clone())
            .with("exhaustive", J::Bool(self.exhaustive))
            .with("wall_s", J::Num(self.started.elapsed().as_secs_f64()))
    }

    pub fn out_of_time(&self, cfg: &ShardCfg) -> bool {
        self.started.elapsed().as_secs_f64() > cfg.budget_s
    }
}

pub fn write_replay(
    cfg: &ShardCfg,
    tag: &str,
    header: &[(&str, String)],
    body: &str,
) -> String {
    let _ = std::fs::create_dir_all(&cfg.replays);
    let path = cfg.replays.join(format!("{}-{}-{}-{tag}.replay", cfg.prop, cfg.seed, cfg.shard));
    let mut s = String::from("# sodg-monitor replay v1\n");
    s.push_str(&format!("property {}\n", cfg.prop));
    for (k, v) in header {
        s.push_str(&format!("{k} {}\n", v.replace('\n', "\\n")));
    }
    s.push_str("ops\n");
    s.push_str(body);
    s.push('\n');
    let _ = std::fs::write(&path, s);
    path.to_string_lossy().to_string()
}

pub struct Replay {
    pub prop: String,
    pub header: std::collections::BTreeMap<String, String>,
    pub body: Vec<String>,
}

pub fn read_replay(path: &std::path::Path) -> Result<Replay, String> {
    let txt = std::fs::read_to_string(path).map_err(|e| format!("{e}"))?;
    let mut header = std::collections::BTreeMap::new();
    let mut body = vec![];
    let mut in_ops = false;
    for line in txt.lines() {
        if line.starts_with('#') && !in_ops {
            continue;
        }
        if in_ops {
            if !line.trim().is_empty() {
                body.push(line.to_string());
            }
        } else if line.trim() == "ops" {
            in_ops = true;
        } else if let Some((k, v)) = line.split_once(' ') {
            header.insert(k.to_string(), v.replace("\\n", "\n"));
        }
    }
    let prop = header.get("property").cloned().ok_or("no property line")?;
    Ok(Replay { prop, header, body })
}

/// Run one case; a panic that escapes from the code under test through an unguarded observation
/// call of the harness (possible only when the code under test is broken in a way that is not
/// this check's business) abandons the case and is counted. A panic of the harness itself is a
/// defect of the machinery and is propagated (the shard dies, the driver reports INCONCLUSIVE).
pub fn case_guard<T>(counters: &mut crate::json::Counters, f: impl FnOnce() -> T) -> Option<T> {
    match crate::rec::guarded(f) {
        Ok(v) => Some(v),
        Err(p) => {
            let loc = p.rsplit(" @ ").next().unwrap_or("");
            if loc.starts_with("src/") || loc.contains("/verif/harness/") {
                eprintln!("HARNESS PANIC: {p}");
                std::process::exit(101);
            }
            counters.inc("case.abandoned-by-stray-panic-from-code-under-test");
            None
        }
    }
}
