//! Object-safe facade over `Sodg<N>` for N in 1..=16, so that monitors need not be generic.
//! Nothing here interprets results; it only forwards calls to the real code.

use sodg::{Hex, Label, Script, Sodg, VerifSnapshot};
use std::any::Any;
use std::path::Path;

pub trait Graph {
    fn n(&self) -> usize;
    fn add(&mut self, v: usize);
    fn bind(&mut self, v1: usize, v2: usize, a: Label);
    fn put(&mut self, v: usize, d: &Hex);
    fn data(&mut self, v: usize) -> Option<Hex>;
    fn kid(&self, v: usize, a: Label) -> Option<usize>;
    fn kids(&self, v: usize) -> Vec<(Label, usize)>;
    fn keys(&self) -> Vec<usize>;
    fn len(&self) -> usize;
    fn is_empty(&self) -> bool;
    fn next_id(&mut self) -> usize;
    fn clone_box(&self) -> Box<dyn Graph>;
    fn slice(&self, v: usize) -> Result<Box<dyn Graph>, String>;
    fn slice_some(
        &self,
        v: usize,
        p: &dyn Fn(usize, usize, Label) -> bool,
    ) -> Result<Box<dyn Graph>, String>;
    /// `h` must have the same N (checked, panics otherwise: harness error).
    fn merge(&mut self, h: &dyn Graph, left: usize, right: usize) -> Result<(), String>;
    fn save(&self, path: &Path) -> Result<usize, String>;
    fn to_xml(&self) -> Result<String, String>;
    fn to_dot(&self) -> String;
    fn inspect(&self, v: usize) -> Result<String, String>;
    fn debug(&self) -> String;
    fn display(&self) -> String;
    fn v_print(&self, v: usize) -> Result<String, String>;
    fn deploy(&mut self, s: &mut Script) -> Result<usize, String>;
    fn snapshot(&self) -> VerifSnapshot;
    fn as_any(&self) -> &dyn Any;
}

macro_rules! impl_graph {
    ($($n:literal),*) => {
        $(
        impl Graph for Sodg<$n> {
            fn n(&self) -> usize { $n }
            fn add(&mut self, v: usize) { Sodg::add(self, v) }
            fn bind(&mut self, v1: usize, v2: usize, a: Label) { Sodg::bind(self, v1, v2, a) }
            fn put(&mut self, v: usize, d: &Hex) { Sodg::put(self, v, d) }
            fn data(&mut self, v: usize) -> Option<Hex> { Sodg::data(self, v) }
            fn kid(&self, v: usize, a: Label) -> Option<usize> { Sodg::kid(self, v, a) }
            fn kids(&self, v: usize) -> Vec<(Label, usize)> {
                Sodg::kids(self, v).map(|(a, t)| (*a, *t)).collect()
            }
            fn keys(&self) -> Vec<usize> { Sodg::keys(self) }
            fn len(&self) -> usize { Sodg::len(self) }
            fn is_empty(&self) -> bool { Sodg::is_empty(self) }
            fn next_id(&mut self) -> usize { Sodg::next_id(self) }
            fn clone_box(&self) -> Box<dyn Graph> { Box::new(Clone::clone(self)) }
            fn slice(&self, v: usize) -> Result<Box<dyn Graph>, String> {
                match Sodg::slice(self, v) {
                    Ok(g) => Ok(Box::new(g)),
                    Err(e) => Err(format!("{e:#}")),
                }
            }
            fn slice_some(&self, v: usize, p: &dyn Fn(usize, usize, Label) -> bool)
                -> Result<Box<dyn Graph>, String> {
                match Sodg::slice_some(self, v, |a, b, l| p(a, b, l)) {
                    Ok(g) => Ok(Box::new(g)),
                    Err(e) => Err(format!("{e:#}")),
                }
            }
            fn merge(&mut self, h: &dyn Graph, left: usize, right: usize) -> Result<(), String> {
                let h = h.as_any().downcast_ref::<Sodg<$n>>().expect("harness: merge of different N");
                Sodg::merge(self, h, left, right).map_err(|e| format!("{e:#}"))
            }
            fn save(&self, path: &Path) -> Result<usize, String> {
                Sodg::save(self, path).map_err(|e| format!("{e:#}"))
            }
            fn to_xml(&self) -> Result<String, String> {
                Sodg::to_xml(self).map_err(|e| format!("{e:#}"))
            }
            fn to_dot(&self) -> String { Sodg::to_dot(self) }
            fn inspect(&self, v: usize) -> Result<String, String> {
                Sodg::inspect(self, v).map_err(|e| format!("{e:#}"))
            }
            fn debug(&self) -> String { format!("{self:?}") }
            fn display(&self) -> String { format!("{self}") }
            fn v_print(&self, v: usize) -> Result<String, String> {
                Sodg::v_print(self, v).map_err(|e| format!("{e:#}"))
            }
            fn deploy(&mut self, s: &mut Script) -> Result<usize, String> {
                s.deploy_to(self).map_err(|e| format!("{e:#}"))
            }
            fn snapshot(&self) -> VerifSnapshot { self.verif_snapshot() }
            fn as_any(&self) -> &dyn Any { self }
        }
        )*

        pub fn new_graph(n: usize, cap: usize) -> Box<dyn Graph> {
            match n {
                $( $n => Box::new(Sodg::<$n>::empty(cap)), )*
                _ => panic!("harness: unsupported N={n}"),
            }
        }

        pub fn load_graph(n: usize, path: &Path) -> Result<Box<dyn Graph>, String> {
            match n {
                $( $n => match Sodg::<$n>::load(path) {
                    Ok(g) => Ok(Box::new(g) as Box<dyn Graph>),
                    Err(e) => Err(format!("{e:#}")),
                }, )*
                _ => panic!("harness: unsupported N={n}"),
            }
        }
    };
}

impl_graph!(1, 2, 3, 4, 5, 6, 7, 8, 9, 10, 11, 12, 13, 14, 15, 16);
