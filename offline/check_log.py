#!/usr/bin/env python3
"""Second oracle over dumped event logs (DESIGN.md §3.12).

An independent re-implementation, in Python and written from the property statements only, of
  * the C01 trace rules (what may be removed, by which call),
  * the group model of C02 (alive set after every call),
  * the C03 read-back rule for data() / kid() return values,
  * the C05 freshness rule for next_id().
It reads the JSON lines written by `sodg-monitor run --mode dump` (call + observed return value + keys()
after every call of histories of primitive calls that the Rust monitors judged as "held") and re-judges
them. Any history this oracle refutes is a DISAGREEMENT between the two implementations of the oracle:
a defect of the machinery (reported as inconclusive by the driver), never a verdict on sodg.

usage: check_log.py <dir with dump-*.jsonl>   -> prints a JSON summary, exit 0 agree / 3 disagree
"""
import glob
import json
import os
import sys


class Uf:
    def __init__(self):
        self.p = {}

    def find(self, x):
        self.p.setdefault(x, x)
        while self.p[x] != x:
            self.p[x] = self.p[self.p[x]]
            x = self.p[x]
        return x

    def union(self, a, b):
        self.p[self.find(a)] = self.find(b)


def judge(h):
    """Return None if the history obeys C01/C02/C03/C05 as stated, else a message."""
    cap = h["cap"]
    # --- group model (C02): vertex -> dict(edges, data, unread, group)
    verts = {}
    groups = {}
    next_gid = [1]
    # --- C01 trace state (kept separately, model-free: only the log)
    inc = {}
    unread_t = {}
    ever_bound = set()
    uf = Uf()
    present_t = set()
    returned = set()
    for i, (call, ob) in enumerate(zip(h["calls"], h["obs"])):
        name = call[0]
        keys_before = sorted(present_t)
        keys_after = ob["k"]
        removed = [v for v in keys_before if v not in keys_after]
        ret = ob["r"]
        if ret == "PANIC":
            # C02 names add, bind, put, data, kid, kids; a panicking next_id() is C05's / C07's business
            return f"call #{i} {call} panicked" + (" (C05)" if name == "next_id" else "")
        # ---------------- model step
        if name == "add":
            v = call[1]
            if v not in verts:
                verts[v] = {"edges": {}, "data": None, "unread": False, "group": None}
        elif name == "bind":
            a, b, l = call[1], call[2], call[3]
            verts[a]["edges"][l] = b
            ga, gb = verts[a]["group"], verts[b]["group"]
            if ga is None and gb is None:
                g = next_gid[0]
                next_gid[0] += 1
                groups[g] = [a, b]
                verts[a]["group"] = verts[b]["group"] = g
            elif ga is None:
                groups[gb].append(a)
                verts[a]["group"] = gb
            elif gb is None:
                groups[ga].append(b)
                verts[b]["group"] = ga
        elif name == "put":
            v = call[1]
            verts[v]["data"] = call[2]
            verts[v]["unread"] = True
        elif name == "data":
            v = call[1]
            x = verts[v]
            want = x["data"]
            if ret != want:
                return f"call #{i} data({v}) returned {ret!r}, last put says {want!r} (C03)"
            if x["data"] is not None and x["unread"]:
                x["unread"] = False
                g = x["group"]
                if g is not None and not any(verts[m]["data"] is not None and verts[m]["unread"] for m in groups[g]):
                    for m in groups.pop(g):
                        del verts[m]
        elif name == "kid":
            v, l = call[1], call[2]
            want = verts[v]["edges"].get(l)
            if ret != want:
                return f"call #{i} kid({v},{l}) returned {ret!r}, last bind says {want!r} (C03)"
        elif name == "next_id":
            if not isinstance(ret, int) or ret >= cap:
                return f"call #{i} next_id() returned {ret!r}, capacity {cap} (C05)"
            if ret in keys_before:
                return f"call #{i} next_id() returned the present id {ret} (C05)"
            if ret in returned:
                return f"call #{i} next_id() returned {ret} again (C05)"
            returned.add(ret)
        if sorted(verts) != keys_after:
            return f"call #{i} {call}: alive set {keys_after}, group model says {sorted(verts)} (C02)"
        # ---------------- C01 trace rules (log only)
        if name == "data":
            v = call[1]
            was_unread = unread_t.get(v, False)
            if ret is not None:
                unread_t[v] = False
            if removed:
                if not (was_unread and ret is not None):
                    return f"call #{i} data({v}) was not a first read yet removed {removed} (C01)"
                for r in removed:
                    kr, kv = (r, inc.get(r, 0)), (v, inc.get(v, 0))
                    if kr not in ever_bound:
                        return f"call #{i} data({v}) removed never-bound {r} (C01)"
                    if uf.find(kr) != uf.find(kv):
                        return f"call #{i} data({v}) removed {r}, not linked by binds (C01)"
                    if unread_t.get(r, False):
                        return f"call #{i} data({v}) removed {r} holding an unread datum (C01)"
        elif removed:
            return f"call #{i} {call} removed {removed} (C01)"
        for r in removed:
            present_t.discard(r)
            unread_t.pop(r, None)
        if name == "add" and call[1] not in present_t:
            v = call[1]
            inc[v] = inc.get(v, 0) + 1
            present_t.add(v)
            unread_t[v] = False
        elif name == "bind":
            ka, kb = (call[1], inc.get(call[1], 0)), (call[2], inc.get(call[2], 0))
            ever_bound.add(ka)
            ever_bound.add(kb)
            uf.union(ka, kb)
        elif name == "put":
            unread_t[call[1]] = True
        if sorted(present_t) != keys_after:
            return f"call #{i} {call}: vertices appeared that no add() explains: {keys_after} vs {sorted(present_t)} (C04)"
    return None


def main():
    d = sys.argv[1]
    # only refutations of the property whose Rust monitor judged the histories count as a
    # disagreement; what this oracle sees of other properties is reported separately
    prop = sys.argv[2] if len(sys.argv) > 2 else ""
    n = calls = collections = 0
    bad = []
    other = {}
    for f in sorted(glob.glob(os.path.join(d, "dump-*.jsonl"))):
        for line in open(f):
            line = line.strip()
            if not line:
                continue
            h = json.loads(line)
            n += 1
            calls += len(h["calls"])
            prev = 0
            for ob in h["obs"]:
                if len(ob["k"]) < prev:
                    collections += 1
                prev = len(ob["k"])
            m = judge(h)
            if m:
                tag = m.rsplit("(", 1)[-1].rstrip(")") if m.endswith(")") else "C02"
                if "panicked" in m and not m.endswith("(C05)"):
                    tag = "C02"
                if not prop or tag == prop:
                    bad.append({"file": os.path.basename(f), "history": n, "message": m, "calls": h["calls"][:40]})
                else:
                    other[tag] = other.get(tag, 0) + 1
    print(json.dumps({"histories": n, "calls": calls, "collections_seen": collections, "disagreements": len(bad), "first": bad[:3],
                      "refutations_of_other_properties_seen": other}, ensure_ascii=False))
    return 3 if bad else 0


if __name__ == "__main__":
    sys.exit(main())
