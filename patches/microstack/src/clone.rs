// Copyright (c) 2023 Yegor Bugayenko
//
// Permission is hereby granted, free of charge, to any person obtaining a copy
// of this software and associated documentation files (the "Software"), to deal
// in the Software without restriction, including without limitation the rights
// to use, copy, modify, merge, publish, distribute, sublicense, and/or sell
// copies of the Software, and to permit persons to whom the Software is
// furnished to do so, subject to the following conditions:
//
// The above copyright notice and this permission notice shall be included
// in all copies or substantial portions of the Software.
//
// THE SOFTWARE IS PROVIDED "AS IS", WITHOUT WARRANTY OF ANY KIND, EXPRESS OR
// IMPLIED, INCLUDING BUT NOT LIMITED TO THE WARRANTIES OF MERCHANTABILITY,
// FITNESS FOR A PARTICULAR PURPOSE AND NON-INFRINGEMENT. IN NO EVENT SHALL THE
// AUTHORS OR COPYRIGHT HOLDERS BE LIABLE FOR ANY CLAIM, DAMAGES OR OTHER
// LIABILITY, WHETHER IN AN ACTION OF CONTRACT, TORT OR OTHERWISE, ARISING FROM,
// OUT OF OR IN CONNECTION WITH THE SOFTWARE OR THE USE OR OTHER DEALINGS IN THE
// SOFTWARE.

use crate::Stack;
use std::ptr;

impl<V: Copy, const N: usize> Clone for Stack<V, N> {
    /// Clone it.
    #[must_use]
    fn clone(&self) -> Self {
        let mut s: Self = Self::new();
        s.next = self.next;
        unsafe { ptr::copy::<V>(self.items.as_ptr(), s.items.as_mut_ptr(), s.next) };
        s
    }
}

#[test]
fn stack_can_be_cloned() {
    let mut s: Stack<u8, 16> = Stack::new();
    unsafe { s.push_unchecked(42) };
    assert_eq!(42, s.clone().pop());
}

#[test]
fn full_stack_can_be_cloned() {
    let mut s: Stack<usize, 16> = Stack::new();
    for i in 0..s.capacity() {
        unsafe { s.push_unchecked(i) };
    }
    assert_eq!(s.capacity() - 1, s.clone().pop());
}

#[test]
fn empty_stack_can_be_cloned() {
    let m: Stack<u8, 0> = Stack::new();
    assert!(m.clone().is_empty());
}
