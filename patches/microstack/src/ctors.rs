// Copyright (c) 2023 Yegor Bugayenko
//
// Permission is hereby granted, free of charge, to any person obtaining a copy
// of this software and associated documentation files (the "Software"), to deal
// in the Software without restriction, including without limitation the rights
// to use, copy, modify, merge, publish, distribute, sublicense, and/or sell
// copies of the Software, and to permit persons to whom the Software is
// furnished to do so, subject to the following conditions:
//
// The above copyright notice and this permission notice shall be included
// in all copies or substantial portions of the Software.
//
// THE SOFTWARE IS PROVIDED "AS IS", WITHOUT WARRANTY OF ANY KIND, EXPRESS OR
// IMPLIED, INCLUDING BUT NOT LIMITED TO THE WARRANTIES OF MERCHANTABILITY,
// FITNESS FOR A PARTICULAR PURPOSE AND NON-INFRINGEMENT. IN NO EVENT SHALL THE
// AUTHORS OR COPYRIGHT HOLDERS BE LIABLE FOR ANY CLAIM, DAMAGES OR OTHER
// LIABILITY, WHETHER IN AN ACTION OF CONTRACT, TORT OR OTHERWISE, ARISING FROM,
// OUT OF OR IN CONNECTION WITH THE SOFTWARE OR THE USE OR OTHER DEALINGS IN THE
// SOFTWARE.

use crate::Stack;
use std::mem::MaybeUninit;

impl<V: Copy, const N: usize> Default for Stack<V, N> {
    /// Make a default empty [`Stack`].
    #[inline]
    #[must_use]
    fn default() -> Self {
        Self::new()
    }
}

impl<V: Copy, const N: usize> Stack<V, N> {
    /// Make it.
    ///
    /// The size of the stack is defined by the generic argument.
    #[inline]
    #[must_use]
    #[allow(clippy::uninit_assumed_init)]
    pub const fn new() -> Self {
        unsafe {
            Self {
                next: 0,
                items: MaybeUninit::<[V; N]>::zeroed().assume_init(),
            }
        }
    }
}

#[test]
fn makes_default_stack() {
    let s: Stack<u8, 8> = Stack::default();
    assert_eq!(0, s.len());
}

#[test]
fn makes_new_stack() {
    let s: Stack<u8, 8> = Stack::new();
    assert_eq!(0, s.len());
}
