// Copyright (c) 2023 Yegor Bugayenko
//
// Permission is hereby granted, free of charge, to any person obtaining a copy
// of this software and associated documentation files (the "Software"), to deal
// in the Software without restriction, including without limitation the rights
// to use, copy, modify, merge, publish, distribute, sublicense, and/or sell
// copies of the Software, and to permit persons to whom the Software is
// furnished to do so, subject to the following conditions:
//
// The above copyright notice and this permission notice shall be included
// in all copies or substantial portions of the Software.
//
// THE SOFTWARE IS PROVIDED "AS IS", WITHOUT WARRANTY OF ANY KIND, EXPRESS OR
// IMPLIED, INCLUDING BUT NOT LIMITED TO THE WARRANTIES OF MERCHANTABILITY,
// FITNESS FOR A PARTICULAR PURPOSE AND NON-INFRINGEMENT. IN NO EVENT SHALL THE
// AUTHORS OR COPYRIGHT HOLDERS BE LIABLE FOR ANY CLAIM, DAMAGES OR OTHER
// LIABILITY, WHETHER IN AN ACTION OF CONTRACT, TORT OR OTHERWISE, ARISING FROM,
// OUT OF OR IN CONNECTION WITH THE SOFTWARE OR THE USE OR OTHER DEALINGS IN THE
// SOFTWARE.

use crate::Stack;
use std::fmt;
use std::fmt::{Debug, Display, Formatter};

impl<V: Display + Copy, const N: usize> Display for Stack<V, N> {
    fn fmt(&self, f: &mut Formatter) -> fmt::Result {
        <&Self as Debug>::fmt(&self, f)
    }
}

impl<V: Display + Copy, const N: usize> Debug for Stack<V, N> {
    fn fmt(&self, f: &mut Formatter) -> fmt::Result {
        let mut parts = vec![];
        for v in self.iter() {
            parts.push(format!("{v}"));
        }
        f.write_str(format!("[{}]", parts.join(", ").as_str()).as_str())
    }
}

#[test]
fn debugs_stack() {
    let mut s: Stack<&str, 10> = Stack::new();
    unsafe { s.push_unchecked("one") };
    unsafe { s.push_unchecked("two") };
    assert_eq!("[one, two]", format!("{:?}", s));
}

#[test]
fn displays_stack() {
    let mut s: Stack<&str, 10> = Stack::new();
    unsafe { s.push_unchecked("one") };
    unsafe { s.push_unchecked("two") };
    assert_eq!("[one, two]", format!("{}", s));
}
