// Copyright (c) 2023 Yegor Bugayenko
//
// Permission is hereby granted, free of charge, to any person obtaining a copy
// of this software and associated documentation files (the "Software"), to deal
// in the Software without restriction, including without limitation the rights
// to use, copy, modify, merge, publish, distribute, sublicense, and/or sell
// copies of the Software, and to permit persons to whom the Software is
// furnished to do so, subject to the following conditions:
//
// The above copyright notice and this permission notice shall be included
// in all copies or substantial portions of the Software.
//
// THE SOFTWARE IS PROVIDED "AS IS", WITHOUT WARRANTY OF ANY KIND, EXPRESS OR
// IMPLIED, INCLUDING BUT NOT LIMITED TO THE WARRANTIES OF MERCHANTABILITY,
// FITNESS FOR A PARTICULAR PURPOSE AND NON-INFRINGEMENT. IN NO EVENT SHALL THE
// AUTHORS OR COPYRIGHT HOLDERS BE LIABLE FOR ANY CLAIM, DAMAGES OR OTHER
// LIABILITY, WHETHER IN AN ACTION OF CONTRACT, TORT OR OTHERWISE, ARISING FROM,
// OUT OF OR IN CONNECTION WITH THE SOFTWARE OR THE USE OR OTHER DEALINGS IN THE
// SOFTWARE.

use crate::{IntoIter, Iter, Stack};
use std::marker::PhantomData;

impl<V: Copy, const N: usize> Iterator for IntoIter<V, N> {
    type Item = V;

    #[inline]
    #[must_use]
    fn next(&mut self) -> Option<Self::Item> {
        if self.pos >= self.next {
            None
        } else {
            let v = unsafe { self.items.add(self.pos).read() };
            self.pos += 1;
            Some(v)
        }
    }
}

impl<'a, V: Copy + 'a, const N: usize> Stack<V, N> {
    /// Into-iterate them.
    #[inline]
    pub const fn into_iter(&self) -> IntoIter<V, N> {
        IntoIter {
            pos: 0,
            next: self.next,
            items: self.items.as_ptr(),
        }
    }
}

impl<'a, V: Copy, const N: usize> Iterator for Iter<'a, V, N> {
    type Item = &'a V;

    #[inline]
    #[must_use]
    fn next(&mut self) -> Option<Self::Item> {
        if self.pos >= self.next {
            None
        } else {
            unsafe {
                let v = self.items.add(self.pos);
                self.pos += 1;
                v.as_ref()
            }
        }
    }
}

impl<'a, V: Copy + 'a, const N: usize> Stack<V, N> {
    /// Iterate them.
    #[inline]
    pub const fn iter(&self) -> Iter<V, N> {
        Iter {
            pos: 0,
            next: self.next,
            items: self.items.as_ptr(),
            _marker: PhantomData,
        }
    }
}

#[test]
fn push_and_iterate() {
    let mut p: Stack<u64, 16> = Stack::new();
    unsafe { p.push_unchecked(1) };
    unsafe { p.push_unchecked(2) };
    unsafe { p.push_unchecked(3) };
    let mut sum = 0;
    for x in p.iter() {
        sum += x;
    }
    assert_eq!(6, sum);
}

#[test]
fn push_and_into_iterate() {
    let mut p: Stack<u64, 16> = Stack::new();
    unsafe { p.push_unchecked(1) };
    unsafe { p.push_unchecked(2) };
    let mut sum = 0;
    for x in p.into_iter() {
        sum += x;
    }
    assert_eq!(3, sum);
}
