// Copyright (c) 2023 Yegor Bugayenko
//
// Permission is hereby granted, free of charge, to any person obtaining a copy
// of this software and associated documentation files (the "Software"), to deal
// in the Software without restriction, including without limitation the rights
// to use, copy, modify, merge, publish, distribute, sublicense, and/or sell
// copies of the Software, and to permit persons to whom the Software is
// furnished to do so, subject to the following conditions:
//
// The above copyright notice and this permission notice shall be included
// in all copies or substantial portions of the Software.
//
// THE SOFTWARE IS PROVIDED "AS IS", WITHOUT WARRANTY OF ANY KIND, EXPRESS OR
// IMPLIED, INCLUDING BUT NOT LIMITED TO THE WARRANTIES OF MERCHANTABILITY,
// FITNESS FOR A PARTICULAR PURPOSE AND NON-INFRINGEMENT. IN NO EVENT SHALL THE
// AUTHORS OR COPYRIGHT HOLDERS BE LIABLE FOR ANY CLAIM, DAMAGES OR OTHER
// LIABILITY, WHETHER IN AN ACTION OF CONTRACT, TORT OR OTHERWISE, ARISING FROM,
// OUT OF OR IN CONNECTION WITH THE SOFTWARE OR THE USE OR OTHER DEALINGS IN THE
// SOFTWARE.

//! This is a simplest and the fastest implementation of a stack on stack,
//! when stack elements are `Copy` implementing primitives.
//!
//! For example, here is how a stack can be created:
//!
//! ```
//! use microstack::Stack;
//! let mut s : Stack<u64, 10> = Stack::new();
//! s.push(1);
//! s.push(2);
//! assert_eq!(2, s.pop());
//! assert_eq!(1, s.len());
//! ```
//!
//! Creating a [`Stack`] requires knowing the maximum size of it, upfront. This is
//! what the second type argument `10` is for, in the example above. The stack
//! will have exactly ten elements. An attempt to add an 11th element will lead
//! to a panic.

#![doc(html_root_url = "https://docs.rs/microstack/0.0.7")]
#![deny(warnings)]
#![warn(clippy::all, clippy::pedantic, clippy::nursery, clippy::cargo)]
#![allow(clippy::multiple_inherent_impl)]
#![allow(clippy::multiple_crate_versions)]

use std::marker::PhantomData;

mod clone;
mod ctors;
mod debug;
mod iterators;
#[cfg(feature = "serde")]
mod serialization;
mod stack;

/// This is a simplest and the fastest implementation of a stack on stack,
/// when stack elements are `Copy` implementing primitives.
///
/// For example, here is how a stack can be created:
///
/// ```
/// use microstack::Stack;
/// let mut s : Stack<u64, 10> = Stack::new();
/// s.push(1);
/// s.push(2);
/// assert_eq!(2, s.pop());
/// ```
///
pub struct Stack<V: Copy, const N: usize> {
    /// The next available position in the array.
    next: usize,
    /// The fixed-size array of values.
    items: [V; N],
}

/// Iterator.
pub struct Iter<'a, V: Copy, const N: usize> {
    /// The position.
    pos: usize,
    /// The next available position in the array.
    next: usize,
    /// The fixed-size array of values.
    items: *const V,
    _marker: PhantomData<&'a V>,
}

/// Into-iterator.
pub struct IntoIter<V: Copy, const N: usize> {
    /// The position.
    pos: usize,
    /// The next available position in the array.
    next: usize,
    /// The fixed-size array of values.
    items: *const V,
}
