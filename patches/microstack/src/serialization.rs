// Copyright (c) 2023 Yegor Bugayenko
//
// Permission is hereby granted, free of charge, to any person obtaining a copy
// of this software and associated documentation files (the "Software"), to deal
// in the Software without restriction, including without limitation the rights
// to use, copy, modify, merge, publish, distribute, sublicense, and/or sell
// copies of the Software, and to permit persons to whom the Software is
// furnished to do so, subject to the following conditions:
//
// The above copyright notice and this permission notice shall be included
// in all copies or substantial portions of the Software.
//
// THE SOFTWARE IS PROVIDED "AS IS", WITHOUT WARRANTY OF ANY KIND, EXPRESS OR
// IMPLIED, INCLUDING BUT NOT LIMITED TO THE WARRANTIES OF MERCHANTABILITY,
// FITNESS FOR A PARTICULAR PURPOSE AND NON-INFRINGEMENT. IN NO EVENT SHALL THE
// AUTHORS OR COPYRIGHT HOLDERS BE LIABLE FOR ANY CLAIM, DAMAGES OR OTHER
// LIABILITY, WHETHER IN AN ACTION OF CONTRACT, TORT OR OTHERWISE, ARISING FROM,
// OUT OF OR IN CONNECTION WITH THE SOFTWARE OR THE USE OR OTHER DEALINGS IN THE
// SOFTWARE.

use crate::Stack;
use serde::de::{SeqAccess, Visitor};
use serde::ser::SerializeSeq;
use serde::{Deserialize, Deserializer, Serialize, Serializer};
use std::fmt::Formatter;
use std::marker::PhantomData;

impl<V: Serialize + Copy, const N: usize> Serialize for Stack<V, N> {
    fn serialize<S>(&self, serializer: S) -> Result<S::Ok, S::Error>
    where
        S: Serializer,
    {
        let mut map = serializer.serialize_seq(Some(self.next))?;
        for v in self.iter() {
            map.serialize_element(&v)?;
        }
        map.end()
    }
}

struct Vi<V, const N: usize>(PhantomData<V>);

impl<'de, V: Copy + Deserialize<'de>, const N: usize> Visitor<'de> for Vi<V, N> {
    type Value = Stack<V, N>;

    fn expecting(&self, formatter: &mut Formatter) -> std::fmt::Result {
        formatter.write_str("a Stack")
    }

    fn visit_seq<A>(self, mut access: A) -> Result<Self::Value, A::Error>
    where
        A: SeqAccess<'de>,
    {
        let mut p: Self::Value = Stack::new();
        while let Some(v) = access.next_element()? {
            p.push(v);
        }
        Ok(p)
    }
}

impl<'de, V: Copy + Deserialize<'de>, const N: usize> Deserialize<'de> for Stack<V, N> {
    fn deserialize<D>(deserializer: D) -> Result<Self, D::Error>
    where
        D: Deserializer<'de>,
    {
        deserializer.deserialize_seq(Vi(PhantomData))
    }
}

#[cfg(test)]
use bincode::{deserialize, serialize};

#[test]
fn serialize_and_deserialize() {
    let mut before: Stack<u8, 8> = Stack::new();
    before.push(42);
    let bytes: Vec<u8> = serialize(&before).unwrap();
    let after: Stack<u8, 8> = deserialize(&bytes).unwrap();
    assert_eq!(42, after.into_iter().next().unwrap());
}
