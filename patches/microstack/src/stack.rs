// Copyright (c) 2023 Yegor Bugayenko
//
// Permission is hereby granted, free of charge, to any person obtaining a copy
// of this software and associated documentation files (the "Software"), to deal
// in the Software without restriction, including without limitation the rights
// to use, copy, modify, merge, publish, distribute, sublicense, and/or sell
// copies of the Software, and to permit persons to whom the Software is
// furnished to do so, subject to the following conditions:
//
// The above copyright notice and this permission notice shall be included
// in all copies or substantial portions of the Software.
//
// THE SOFTWARE IS PROVIDED "AS IS", WITHOUT WARRANTY OF ANY KIND, EXPRESS OR
// IMPLIED, INCLUDING BUT NOT LIMITED TO THE WARRANTIES OF MERCHANTABILITY,
// FITNESS FOR A PARTICULAR PURPOSE AND NON-INFRINGEMENT. IN NO EVENT SHALL THE
// AUTHORS OR COPYRIGHT HOLDERS BE LIABLE FOR ANY CLAIM, DAMAGES OR OTHER
// LIABILITY, WHETHER IN AN ACTION OF CONTRACT, TORT OR OTHERWISE, ARISING FROM,
// OUT OF OR IN CONNECTION WITH THE SOFTWARE OR THE USE OR OTHER DEALINGS IN THE
// SOFTWARE.

use crate::Stack;

impl<V: Copy, const N: usize> Stack<V, N> {
    /// Make it from vector.
    #[inline]
    #[must_use]
    pub fn from_vec(v: Vec<V>) -> Self {
        let mut p = Self::new();
        for i in v {
            unsafe { p.push_unchecked(i) };
        }
        p
    }

    /// Get the capacity.
    #[inline]
    #[must_use]
    pub fn capacity(&mut self) -> usize {
        N
    }

    /// Push new element into it.
    ///
    /// # Safety
    ///
    /// It may lead to undefined behavior, if you go over the boundary.
    #[inline]
    pub unsafe fn push_unchecked(&mut self, v: V) {
        self.items.as_mut_ptr().add(self.next).write(v);
        self.next += 1;
    }

    /// Push new element into it.
    ///
    /// # Panics
    ///
    /// If there is no more space in the stack, it will panic.
    #[inline]
    pub fn push(&mut self, v: V) {
        assert!(self.next < N, "No more space left in the stack");
        unsafe {
            self.push_unchecked(v);
        }
    }

    /// Makes an attempt to push a new element into the stack.
    ///
    /// If there was enough space in the stack, `Ok(v)` is returned, while
    /// `Err` is returned otherwise.
    ///
    /// # Errors
    ///
    /// If there is not enough space in the stack, `Err` is returned.
    #[inline]
    pub fn try_push(&mut self, v: V) -> Result<(), String> {
        if self.next < N {
            self.push(v);
            Ok(())
        } else {
            Err(format!(
                "There are no space left in the stack of {}",
                self.capacity()
            ))
        }
    }

    /// Pop a element from it.
    ///
    /// # Safety
    ///
    /// If there are no items in the array, the result is undefined.
    #[inline]
    pub unsafe fn pop_unchecked(&mut self) -> V {
        self.next -= 1;
        self.items.as_ptr().add(self.next).read()
    }

    /// Pop a element from it.
    ///
    /// # Panics
    ///
    /// If there are no items in the array, it will panic.
    #[inline]
    pub fn pop(&mut self) -> V {
        assert!(self.next > 0, "No more items left in the stack");
        unsafe { self.pop_unchecked() }
    }

    /// Pop a element from it.
    ///
    /// # Errors
    ///
    /// If there is no more elements left, it will return `None`.
    #[inline]
    pub fn try_pop(&mut self) -> Result<V, String> {
        if self.next == 0 {
            Err(format!(
                "There are no items left in the stack of {}",
                self.capacity()
            ))
        } else {
            Ok(self.pop())
        }
    }

    /// Clear.
    #[inline]
    pub fn clear(&mut self) {
        self.next = 0;
    }

    /// Is it empty.
    #[inline]
    #[must_use]
    pub const fn is_empty(&self) -> bool {
        self.len() == 0
    }

    /// Length of it.
    #[inline]
    #[must_use]
    pub const fn len(&self) -> usize {
        self.next
    }
}

#[test]
fn push_one() {
    let mut s: Stack<u64, 1> = Stack::new();
    unsafe { s.push_unchecked(42) };
    assert_eq!(42, s.pop());
}

#[test]
fn push_safely() {
    let mut s: Stack<u64, 1> = Stack::new();
    s.push(42);
    assert_eq!(42, s.pop());
}

#[test]
fn try_to_push() {
    let mut s: Stack<u64, 1> = Stack::new();
    assert!(s.try_push(42).is_ok());
    assert!(s.try_push(16).is_err());
    assert_eq!(42, s.pop());
}

#[test]
fn push_after_clear() {
    let mut s: Stack<u64, 1> = Stack::new();
    unsafe { s.push_unchecked(42) };
    s.clear();
    s.push(16);
    assert_eq!(16, s.pop());
}

#[test]
fn build_from_vec() {
    let mut s: Stack<u64, 1> = Stack::from_vec(vec![42]);
    assert_eq!(42, s.pop());
}

#[test]
fn pop_none() {
    let mut s: Stack<u64, 1> = Stack::new();
    assert_eq!(0, s.len());
    assert!(s.is_empty());
    assert!(s.try_pop().is_err());
}

#[test]
fn read_capacity() {
    let mut s: Stack<u64, 1> = Stack::new();
    assert_eq!(1, s.capacity());
}

#[test]
fn safely_pop() {
    let mut s: Stack<u64, 1> = Stack::new();
    s.push(42);
    assert_eq!(42, s.try_pop().unwrap());
}

#[test]
fn with_str() {
    let mut s: Stack<&str, 1> = Stack::new();
    s.push("Hello!");
    assert_eq!("Hello!", s.pop());
}

#[test]
#[should_panic]
fn panic_on_empty_stack_push() {
    let mut s: Stack<u64, 0> = Stack::new();
    assert_eq!(0, s.len());
    s.push(11);
}

#[test]
#[should_panic]
fn panic_on_empty_stack_pop() {
    let mut s: Stack<u64, 0> = Stack::new();
    assert_eq!(0, s.len());
    s.pop();
}

#[test]
fn push_and_pop() {
    let mut s: Stack<u64, 16> = Stack::new();
    s.push(42);
    assert_eq!(42, s.pop());
}
