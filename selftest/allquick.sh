#!/bin/bash
# run every quick check at the given seeds; one line per check
cd "$(dirname "$0")/.."
for seed in "$@"; do
  for n in 01 02 03 04 05 06 07 08 09 10 11 12 13 14 15 16 17 18 19 20; do
    out=$(VERIF_SEED=$seed ./check C$n quick 2>&1); rc=$?
    echo "seed=$seed C$n rc=$rc $(echo "$out" | grep -E "VIOLATION|INCONCLUSIVE" | head -2 | tr '\n' ' ') $(echo "$out" | tail -1 | cut -c1-150)"
  done
done
