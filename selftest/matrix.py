#!/usr/bin/env python3
"""Full matrix: every quick check against every seeded change, on a private copy of the repository.

Meant for `vp run --with-repo --timeout 10h -- python3 selftest/matrix.py [seed-id ...]`:
runs in a snapshot of /verif (cwd) against the snapshot of /repo in $VP_RUN_REPO, so neither /repo nor
/verif is touched. Writes matrix.json / matrix.log into the snapshot and prints one line per cell.
A cell is: silent / VIOLATION / INCONCLUSIVE. Used to find (a) checks that miss a change aimed at their
property and (b) checks that raise an alarm although their property still holds under the change.
"""
import json
import os
import re
import subprocess
import sys
import time

ROOT = os.path.dirname(os.path.dirname(os.path.abspath(__file__)))
REPO = os.environ.get("VP_RUN_REPO") or os.environ.get("SODG_REPO")
SEEDS_DIR = os.environ.get("SEEDS_DIR", "/verif/seeded")
ALL = [f"C{n:02d}" for n in range(1, 21)]


def main():
    if not REPO or REPO == "/repo":
        print("refusing to run on /repo itself; use vp run --with-repo")
        return 2
    # point the harness manifests at the private copy
    for rel in ("harness/Cargo.toml", "harness-miri2/Cargo.toml"):
        p = os.path.join(ROOT, rel)
        s = open(p).read().replace('path = "/repo"', f'path = "{REPO}"')
        open(p, "w").write(s)
    for rel in ("harness/.cargo/config.toml", "harness-miri2/.cargo/config.toml"):
        p = os.path.join(ROOT, rel)
        s = re.sub(r'target-dir = "[^"]*"', f'target-dir = "{ROOT}/target"', open(p).read())
        open(p, "w").write(s)
    seeds = sys.argv[1:] or sorted(d for d in os.listdir(SEEDS_DIR) if os.path.exists(f"{SEEDS_DIR}/{d}/patch.diff"))
    props = os.environ.get("MATRIX_PROPS", ",".join(ALL)).split(",")
    env = dict(os.environ)
    env["SODG_REPO"] = REPO
    subprocess.run([os.path.join(ROOT, "check"), "setup"], cwd=ROOT, env=env)
    out = {}
    for sd in ["<unchanged>"] + seeds:
        if sd != "<unchanged>":
            patch = os.path.join(ROOT, sd) if sd.endswith(".diff") else f"{SEEDS_DIR}/{sd}/patch.diff"
            r = subprocess.run(["git", "-C", REPO, "apply", patch], capture_output=True, text=True)
            if r.returncode != 0:
                print(f"{sd}: patch does not apply: {r.stderr}", flush=True)
                continue
        row = {}
        try:
            row_props = props
            if os.environ.get("MATRIX_DIAG") and sd != "<unchanged>" and not sd.endswith(".diff"):
                # only the check of the property the change is aimed at
                own = json.load(open(f"{SEEDS_DIR}/{sd}/meta.json"))["breaks_property"]
                row_props = [own]
            for p in row_props:
                # C07 (2-3 minutes) only where its own property or the limits are concerned
                if p == "C07" and sd != "<unchanged>" and not sd.startswith(("C07", "C02", "C03", "own")) and not os.environ.get("MATRIX_ALL_C07") and not os.environ.get("MATRIX_DIAG"):
                    continue
                t0 = time.time()
                pr = subprocess.run([os.path.join(ROOT, "check"), p, "quick"], cwd=ROOT, env=env, capture_output=True, text=True)
                msg = ""
                lines = pr.stdout.splitlines()
                for i, l in enumerate(lines):
                    if l.startswith(("VIOLATION", "INCONCLUSIVE")) and i > 0:
                        msg = lines[i - 1].strip()[:300]
                        break
                row[p] = {"verdict": {0: "silent", 1: "VIOLATION", 2: "INCONCLUSIVE"}.get(pr.returncode, str(pr.returncode)),
                          "message": msg, "wall_s": round(time.time() - t0, 1)}
                print(f"{sd} {p} {row[p]['verdict']} ({row[p]['wall_s']}s) {msg[:160]}", flush=True)
        finally:
            if sd != "<unchanged>":
                subprocess.run(["git", "-C", REPO, "checkout", "--", "."])
        out[sd] = row
        json.dump(out, open(os.path.join(ROOT, "matrix.json"), "w"), indent=1, ensure_ascii=False)
    return 0


if __name__ == "__main__":
    sys.exit(main())
