#!/usr/bin/env python3
"""Merge the cells of a matrix.json (selftest/matrix.py) into seeded/<id>/meta.json (checks_run, detected_by)."""
import json
import os
import sys

ROOT = os.path.dirname(os.path.dirname(os.path.abspath(__file__)))
m = json.load(open(sys.argv[1]))
n = 0
for sd, row in m.items():
    p = f"{ROOT}/seeded/{sd}/meta.json"
    if not os.path.exists(p):
        continue
    meta = json.load(open(p))
    for prop, cell in row.items():
        meta.setdefault("checks_run", {})[prop] = {"tier": "quick", "verdict": cell["verdict"], "message": cell["message"], "wall_s": cell["wall_s"]}
        n += 1
    meta["detected_by"] = [k for k, v in meta["checks_run"].items() if v["verdict"] == "VIOLATION"]
    json.dump(meta, open(p, "w"), indent=1, ensure_ascii=False)
print(n, "cells merged")
