#!/usr/bin/env python3
"""Regenerate the table of DESIGN.md §11 from seeded/*/meta.json (between the two markers)."""
import json
import os

ROOT = os.path.dirname(os.path.dirname(os.path.abspath(__file__)))
rows = []
for d in sorted(os.listdir(f"{ROOT}/seeded")):
    p = f"{ROOT}/seeded/{d}/meta.json"
    if not os.path.exists(p):
        continue
    m = json.load(open(p))
    cr = m.get("checks_run", {})
    det = [k for k, v in cr.items() if v["verdict"] == "VIOLATION"]
    sil = [k for k, v in cr.items() if v["verdict"] == "silent"]
    note = m.get("framework_response", "")
    rows.append(f"| `{d}` | {m['breaks_property']} | {m.get('needs_to_manifest','')} | {', '.join(det) or '—'} | {', '.join(sil) or '—'} | {note} |")
table = ("| change | aimed at | what it needs in order to manifest | quick checks that report it | quick checks run that stay silent | response of the framework |\n"
         "|---|---|---|---|---|---|\n" + "\n".join(rows) + "\n")
p = f"{ROOT}/DESIGN.md"
s = open(p).read()
a, b = "<!-- SEED-TABLE-BEGIN -->", "<!-- SEED-TABLE-END -->"
if a in s:
    s = s[:s.index(a) + len(a)] + "\n" + table + s[s.index(b):]
else:
    s = s.replace("(filled in from `seeded/*/meta.json`; see the table at the end of this section)", f"{a}\n{table}{b}")
open(p, "w").write(s)
print(len(rows), "rows")
