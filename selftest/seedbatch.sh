#!/bin/bash
# usage: seedbatch.sh "<seed-id> <props>" ...   (sequential: the patches are applied to /repo itself)
cd /verif
for item in "$@"; do
  set -- $item
  id=$1; props=$2
  echo "=== $id [$props]"
  python3 selftest/seedrun.py seeded/$id/patch.diff $props quick 2>&1 | tee work/seedrun-$id.log | grep -v "^JSON"
  python3 - "$id" <<'PY'
import json,sys,re
id=sys.argv[1]
log=open(f"/verif/work/seedrun-{id}.log").read()
m=re.search(r"^JSON (.*)$",log,re.M)
if m:
    res=json.loads(m.group(1))
    p=f"/verif/seeded/{id}/meta.json"
    meta=json.load(open(p))
    for k,v in res.items():
        meta["checks_run"][k]={"tier":"quick","verdict":{0:"silent",1:"VIOLATION",2:"INCONCLUSIVE"}.get(v["exit"],str(v["exit"])),"message":v["message"],"wall_s":v["wall_s"]}
    json.dump(meta,open(p,"w"),indent=1,ensure_ascii=False)
PY
done
git -C /repo status --short
