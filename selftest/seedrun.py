#!/usr/bin/env python3
"""Run checks against a seeded change: apply the patch to /repo, run the checks, undo it straight afterwards.

usage: seedrun.py <patch.diff> <ID[,ID...]|all> [quick|thorough]   -> prints one line per check, JSON summary at the end
"""
import json
import os
import subprocess
import sys
import time

ROOT = os.path.dirname(os.path.dirname(os.path.abspath(__file__)))
REPO = "/repo"
ALL = [f"C{n:02d}" for n in range(1, 21)]


def main():
    patch = os.path.abspath(sys.argv[1])
    props = ALL if sys.argv[2] == "all" else sys.argv[2].split(",")
    tier = sys.argv[3] if len(sys.argv) > 3 else "quick"
    dirty = subprocess.run(["git", "-C", REPO, "status", "--porcelain", "--untracked-files=no"], capture_output=True, text=True).stdout.strip()
    if dirty:
        print("refusing: /repo has local modifications:\n" + dirty)
        return 2
    r = subprocess.run(["git", "-C", REPO, "apply", patch], capture_output=True, text=True)
    if r.returncode != 0:
        print("patch does not apply:", r.stderr)
        return 2
    results = {}
    try:
        for p in props:
            t0 = time.time()
            env = dict(os.environ)
            pr = subprocess.run([os.path.join(ROOT, "check"), p, tier], cwd=ROOT, capture_output=True, text=True, env=env)
            lines = [l for l in pr.stdout.splitlines() if l.startswith(("VIOLATION", "INCONCLUSIVE", "KNOWN-FINDING"))]
            msg = ""
            for i, l in enumerate(pr.stdout.splitlines()):
                if l.startswith("VIOLATION") and i > 0:
                    msg = pr.stdout.splitlines()[i - 1].strip()
                    break
            results[p] = {"exit": pr.returncode, "lines": [l[:160] for l in lines[:3]], "message": msg[:400], "wall_s": round(time.time() - t0, 1)}
            verdict = {0: "silent", 1: "VIOLATION", 2: "INCONCLUSIVE"}.get(pr.returncode, f"rc={pr.returncode}")
            print(f"{p} {tier}: {verdict} ({results[p]['wall_s']}s) {msg[:200]}", flush=True)
    finally:
        subprocess.run(["git", "-C", REPO, "checkout", "--", "."], check=False)
    print("JSON " + json.dumps(results, ensure_ascii=False))
    return 0


if __name__ == "__main__":
    sys.exit(main())
