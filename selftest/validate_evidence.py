#!/usr/bin/env python3
"""Validate MANIFEST.json and every evidence/<id>.json against the schemas in /root/.vp (run with python3-vt: needs jsonschema),
and check that each evidence file comes from a silent run on the tree whose hash it records."""
import json
import sys

import jsonschema

ms = json.load(open("/root/.vp/MANIFEST.schema.json"))
es = json.load(open("/root/.vp/EVIDENCE.schema.json"))
m = json.load(open("/verif/MANIFEST.json"))
jsonschema.validate(m, ms)
bad = 0
hashes = set()
for c in m["checks"]:
    p = "/verif/" + c["evidence_file"]
    try:
        e = json.load(open(p))
        jsonschema.validate(e, es)
        cov = e["coverage"]
        problems = []
        if e.get("violations", 0) != 0:
            problems.append(f"violations={e['violations']}")
        if cov["evaluations"] < 1 or cov["distinct_nontrivial"] < 2:
            problems.append(f"evaluations={cov['evaluations']} distinct_nontrivial={cov['distinct_nontrivial']}")
        if cov.get("inconclusive_reasons"):
            problems.append(f"inconclusive: {cov['inconclusive_reasons'][:1]}")
        hashes.add(cov.get("sut_hash"))
        print(c["property_id"], e["tier"], cov["evaluations"], cov["distinct_nontrivial"], "stages:",
              [k for k in ("rel", "reach", "offline", "asan", "miri1", "miri2", "memcheck") if k in cov], "; ".join(problems) or "ok")
        bad += bool(problems)
    except Exception as ex:  # noqa: BLE001
        print(c["property_id"], "INVALID", str(ex)[:200])
        bad += 1
print("sut hashes:", hashes)
sys.exit(1 if bad or len(hashes) != 1 else 0)
