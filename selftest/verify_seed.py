#!/usr/bin/env python3
"""Confirm a seeded change independently in its scratch worktree and import it into /verif/seeded/<prop>-<m>/.

usage: verify_seed.py <prop> <A|B>
Checks: patch applies to HEAD; whole existing suite passes with it; demo fails with it; demo passes without it.
"""
import json
import os
import re
import shutil
import subprocess
import sys

prop, m = sys.argv[1], sys.argv[2]
wt = os.environ.get("SEED_WT", f"/tmp/wt-{prop}")
seed = f"{wt}/seed/{m}"
dst = os.environ.get("SEED_DST", f"/verif/seeded/{prop}-{m}")


def sh(cmd, **kw):
    return subprocess.run(cmd, shell=True, cwd=wt, capture_output=True, text=True, **kw)


def results(out):
    return re.findall(r"test result: (\w+)\. (\d+) passed; (\d+) failed", out)


sh("git checkout -- src; rm -rf tests/demo.rs")
r = sh(f"git apply --check {seed}/patch.diff")
if r.returncode != 0:
    print("patch does not apply:", r.stderr)
    sys.exit(1)
files = sh(f"git apply --numstat {seed}/patch.diff").stdout
sh(f"git apply {seed}/patch.diff")
# cargo judges freshness by mtime: make sure the mutated sources are seen
sh("touch src/*.rs")
suite = sh("cargo test --offline 2>&1")
rs = results(suite.stdout)
suite_ok = len(rs) >= 3 and all(x[0] == "ok" for x in rs) and int(rs[0][1]) == 94
os.makedirs(f"{wt}/tests", exist_ok=True)
shutil.copy(f"{seed}/demo.rs", f"{wt}/tests/demo.rs")
demo_mut = sh("cargo test --offline --test demo 2>&1")
# a memory-safety change may kill the test binary (abort on a std precondition check) instead of failing a test
demo_fails_with = demo_mut.returncode != 0 and ("test result: FAILED" in demo_mut.stdout or "process abort signal" in demo_mut.stdout or "SIGSEGV" in demo_mut.stdout)
sh("git checkout -- src; touch src/*.rs")
demo_clean = sh("cargo test --offline --test demo 2>&1")
demo_passes_without = demo_clean.returncode == 0 and "test result: ok" in demo_clean.stdout
sh("rm -rf tests/demo.rs; rmdir tests 2>/dev/null")
print(f"{prop}-{m}: suite_passes_with_mutant={suite_ok} {rs}  demo_fails_with={demo_fails_with}  demo_passes_without={demo_passes_without}")
if not (suite_ok and demo_fails_with and demo_passes_without):
    print(suite.stdout[-1500:] if not suite_ok else "")
    print(demo_mut.stdout[-800:] if not demo_fails_with else "")
    print(demo_clean.stdout[-800:] if not demo_passes_without else "")
    sys.exit(1)
os.makedirs(dst, exist_ok=True)
for f in ("patch.diff", "demo.rs", "notes.md"):
    if os.path.exists(f"{seed}/{f}"):
        shutil.copy(f"{seed}/{f}", f"{dst}/{f}")
meta = {
    "id": f"{prop}-{m}",
    "breaks_property": prop,
    "written_by": "independent sub-agent given only the property text and a scratch worktree",
    "files_changed": [l.split("\t")[-1] for l in files.strip().splitlines()],
    "needs_to_manifest": "see notes.md",
    "confirmed": {
        "patch_applies_to_repo_head": True,
        "existing_suite_passes_with_change": f"cargo test --offline: {rs}",
        "demo_fails_with_change": "cargo test --offline --test demo: FAILED",
        "demo_passes_without_change": "cargo test --offline --test demo: ok",
        "where": f"scratch worktree {wt} (removed afterwards)",
    },
    "checks_run": {},
}
if os.path.exists(f"{dst}/meta.json"):
    old = json.load(open(f"{dst}/meta.json"))
    meta["checks_run"] = old.get("checks_run", {})
    meta["needs_to_manifest"] = old.get("needs_to_manifest", meta["needs_to_manifest"])
json.dump(meta, open(f"{dst}/meta.json", "w"), indent=1, ensure_ascii=False)
print("imported into", dst)
